#!/bin/bash
# usage: try_seed.sh <seed-dir-name> <property>...   – applies the seeded patch to /repo, runs the quick checks, reverts
seed=$1; shift
ROOT="$(cd "$(dirname "$0")/.." && pwd)"; cd "$ROOT"
git -C ${VERIF_REPO:-/repo} apply $ROOT/seeded/$seed/patch.diff || { echo "PATCH DOES NOT APPLY"; exit 9; }
for p in "$@"; do
  out=$(./check $p quick 2>&1); rc=$?
  echo "== seed=$seed check=$p exit=$rc"
  echo "$out" | grep -E "^(VIOLATION|INCONCLUSIVE|KNOWN|  harness)" | head -6 | cut -c1-260
done
git -C ${VERIF_REPO:-/repo} checkout -- .
