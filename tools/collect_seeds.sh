#!/bin/bash
# usage: collect_seeds.sh <tag> <id>...  – copies /tmp/wt<tag>_<id>/SEEDED into seeded/<id>-<tag>
tag=$1; shift
for i in "$@"; do
  src=/tmp/wt${tag}_$i/SEEDED; dst=/verif/seeded/$i-$tag
  [ -f $src/patch.diff ] || { echo "$i: no patch"; continue; }
  mkdir -p $dst; cp $src/* $dst/; echo "$i: $(ls $dst | tr '\n' ' ')"
done
