#!/bin/bash
# runs each seeded change against the quick checks of the properties it concerns
cd /verif
OUT=/verif/seeded/matrix.txt
: > $OUT
while read seed props; do
  git -C /repo apply /verif/seeded/$seed/patch.diff || { echo "$seed PATCH-FAILS" >> $OUT; continue; }
  for p in $props; do
    out=$(./check $p quick 2>&1); rc=$?
    lab=$(echo "$out" | grep -m1 "^  harness=" | sed 's/ | native.*//' | cut -c1-160)
    echo "$seed $p exit=$rc $lab" >> $OUT
  done
  git -C /repo checkout -- .
done <<'L'
C10-a C10
C11-a C14 C11
C12-a C12 C11
C13-a C13
C14-a C14
C15-a C15
C18-a C18
C20-a C20
C01-b C01 C07
C02-b C02 C16
C03-b C03
C04-b C04 C17
C05-b C05 C17
C06-b C06
C07-b C07
C08-b C08
C09-b C09
C16-b C16 C17
C17-b C17
C19-b C19
L
echo DONE >> $OUT
