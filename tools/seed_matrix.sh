#!/bin/bash
# Runs each seeded change against the quick checks of the properties it concerns, in a scratch
# worktree of /repo HEAD (VERIF_REPO), so that /repo and /verif/evidence stay untouched.
# usage: seed_matrix.sh [outfile] < list   (default list: tools/seed_matrix.list)
cd /verif
OUT=${1:-/verif/seeded/matrix.txt}
LIST=${2:-/verif/tools/seed_matrix.list}
WT=/tmp/wt_matrix
git -C /repo worktree remove --force $WT 2>/dev/null
git -C /repo worktree add -q --detach $WT HEAD || exit 1
export VERIF_REPO=$WT
: > $OUT
while read seed props; do
  [ -z "$seed" ] && continue
  git -C $WT apply /verif/seeded/$seed/patch.diff || { echo "$seed PATCH-FAILS" >> $OUT; continue; }
  for p in $props; do
    out=$(./check $p quick 2>&1); rc=$?
    lab=$(echo "$out" | grep -m1 "^  harness=" | sed 's/ | native.*//' | cut -c1-160)
    echo "$seed $p exit=$rc $lab" >> $OUT
  done
  git -C $WT checkout -- . ; git -C $WT clean -fdq
done < $LIST
git -C /repo worktree remove --force $WT
echo DONE >> $OUT
