#!/bin/bash
# Confirms every seeded defect in a scratch worktree of /repo (HEAD):
#  demo passes on the unchanged tree, patch applies and builds, demo fails with
#  the patch, the existing tests of the touched area still pass with the patch.
export GOFLAGS=-mod=mod GOPROXY=off GOSUMDB=off GOTOOLCHAIN=local
WT=/tmp/wt_verify
OUT=${2:-/verif/seeded/verify_results.txt}
: > $OUT
git -C /repo worktree remove --force $WT 2>/dev/null
git -C /repo worktree add -q --detach $WT HEAD || exit 1
for d in /verif/seeded/${1:-*}/; do
  s=$(basename $d)
  [ -f $d/patch.diff ] || continue
  demo=$(ls $d/*_test.go | head -1)
  dpath=$(cat $d/demo_path.txt | tr -d '\n ')
  pkg=./$(dirname $dpath)
  run=$(grep -oE "func (Test[A-Za-z0-9_]+)" $demo | awk '{print $2}' | paste -sd'|')
  cd $WT && git checkout -q -- . && git clean -fdq
  cp $demo $WT/$dpath
  r0=$(go test -vet=off -count=1 -run "^($run)\$" $pkg 2>&1 | tail -1)
  if ! git apply $d/patch.diff 2>/dev/null; then echo "$s: PATCH-DOES-NOT-APPLY" >> $OUT; continue; fi
  b=$(go build ./... 2>&1 | tail -1)
  r1=$(go test -vet=off -count=1 -run "^($run)\$" $pkg 2>&1 | grep -E "^(ok|FAIL|---)" | tail -1)
  rm -f $WT/$dpath
  mkdir -p /tmp/tmp_verify_seeds /tmp/home_verify_seeds
  t2=$(TMPDIR=/tmp/tmp_verify_seeds HOME=/tmp/home_verify_seeds GOPATH=/root/go GOMODCACHE=/root/go/pkg/mod GOCACHE=/root/.cache/go-build go test -vet=off -count=1 ./ledger/... ./ctrlers/account/... ./ctrlers/stake/... ./ctrlers/types/... ./ctrlers/vm/... ./node/... ./types/... 2>&1)
  r2=$(echo "$t2" | grep -E "^(FAIL|---|panic)" | head -3 | tr '\n' ' ')
  nok=$(echo "$t2" | grep -c "^ok")
  [ "$nok" = 0 ] && r2="NO PACKAGE RAN: $(echo "$t2" | head -2 | tr '\n' ' ')"
  echo "$s: demo_on_unchanged=[$r0] build=[$b] demo_with_patch=[$r1] existing_tests: ok_packages=$nok failures=[$r2]" >> $OUT
done
cd /; git -C /repo worktree remove --force $WT
rm -rf /tmp/tmp_verify_seeds /tmp/home_verify_seeds
echo DONE >> $OUT
