#!/usr/bin/env python3
"""Regenerates /verif/MANIFEST.json from checks.py (claimed checks) and
not_applicable.json (properties not claimed, with reasons)."""
import json, os, sys
ROOT = os.path.dirname(os.path.dirname(os.path.abspath(__file__)))
sys.path.insert(0, ROOT)
import checks

props = [json.loads(l) for l in open(os.path.join(ROOT, "properties.jsonl"))]
na = json.load(open(os.path.join(ROOT, "not_applicable.json")))
m = {
    "version": 1,
    "setup_cmd": "cd /verif/engine && GOFLAGS=-mod=mod GOPROXY=off GOSUMDB=off GOTOOLCHAIN=local go build -o /verif/bin/symx ./cmd/symx && GOFLAGS=-mod=mod GOPROXY=off GOSUMDB=off GOTOOLCHAIN=local go test -count=1 ./symx/",
    "hooks": {
        "guard": "verif",
        "enable": "-tags verif (go/packages BuildFlags `-tags=verif,math_big_pure_go` for the executor - the second tag only selects the pure-Go bodies of math/big -, `go test -c -tags verif -overlay ...` for native replay). The only hook is ledger.VerifPoint/VerifHook (crash-point callback before each durable write of a commit, used by C08); all harness code is injected as build overlays and never written into /repo",
        "baseline_off_cmd": "cd /repo && GOFLAGS=-mod=mod GOPROXY=off go test -vet=off -count=1 ./cmd/... ./ctrlers/account/... ./ctrlers/stake/... ./ctrlers/types/... ./ctrlers/vm/... ./ledger/... ./libs/... ./node/... ./types/... ./sfeeder/common/...",
        "source_commits": ["e12d02b verif hook: ledger.VerifPoint before every durable write of a commit (no-op unless built with -tags verif)"],
        "add_only": True,
    },
    "engines": [{
        "name": "symx", "path": "/verif/engine",
        "serves_properties": sorted(k for k in checks.CHECKS.keys() if k.startswith("C")),
        "kind_free_text": "symbolic executor for Go SSA (fork of x/tools go/ssa/interp v0.29.0 with symbolic scalars, Int+explicit-wrap SMT encoding, z3 4.8.12 via one long-lived `z3 -in` per worker, path exploration by re-execution with decision prefixes, native replay of counterexamples)",
    }],
    "checks": [],
    "notes": "All checks: solver-based bounded checking of the real code; bounds, stubs and assumptions are listed per check in the evidence file and in DESIGN.md. Exit 2 (no VIOLATION line) = inconclusive / machinery problem.",
    "not_applicable": [],
}
for p in props:
    pid = p["id"]
    if pid in checks.CHECKS:
        c = checks.CHECKS[pid]
        e = {
            "property_id": pid,
            "quick_cmd": "./check %s quick" % pid,
            "thorough_cmd": "./check %s thorough" % pid,
            "evidence_file": "/verif/evidence/%s.json" % pid,
            "replay_cmd_template": "./check %s --replay {path}" % pid,
            "engine": "symx",
            "level_claimed": {
                "category": "model_checking",
                "text": c.get("level_text", "bounded symbolic model checking of the real functions: every assertion on every feasible path of the harness is decided by z3 for all input values inside the stated bounds; counterexamples are replayed natively before they are reported"),
                "design_ref": "DESIGN.md §4/" + pid,
            },
            "level_note": "bounds: %s | outside the claim: %s | trusted: SSA construction (x/tools), the executor and its stubs (validated per run by native replay of sampled paths), z3" % (c.get("bounds", ""), c.get("outside", "")),
            "technique": c.get("technique", "symbolic execution of go/ssa + SMT (z3), bounded; native replay of counterexamples"),
        }
        m["checks"].append(e)
    else:
        m["not_applicable"].append({"property_id": pid, "reason": na.get(pid, "check not built yet")})
json.dump(m, open(os.path.join(ROOT, "MANIFEST.json"), "w"), indent=1)
print("claimed:", [c["property_id"] for c in m["checks"]])
