#!/usr/bin/env python3
"""Writes one prompt file per property for a seeding sub-agent: property text only (nothing from
/verif except the summaries of earlier seeds, so that the new change is different in kind).
usage: gen_agent_prompts.py <round-tag> <id>...   -> /tmp/agent<tag>_prompt_<id>.txt, worktree /tmp/wt<tag>_<id>"""
import json, sys, glob, os
tag = sys.argv[1]
ids = sys.argv[2:]
tmpl = open('/verif/tools/agent_prompt_tmpl.txt').read()
props = {}
for l in open('/verif/properties.jsonl'):
    p = json.loads(l); props[p['id']] = p
for pid in ids:
    p = props[pid]
    wt = '/tmp/wt%s_%s' % (tag, pid)
    s = tmpl.replace('__WT__', wt).replace('__ID__', pid).replace('__TITLE__', p['title']).replace('__STATEMENT__', p['statement'])
    s = s.replace('__FILES__', ', '.join(p['anchors']['files'])).replace('__TAG__', tag)
    prev = []
    for d in sorted(glob.glob('/verif/seeded/%s-*' % pid)):
        m = json.load(open(os.path.join(d, 'meta.json')))
        prev.append(' - ' + m.get('summary', '')[:900])
    s += '\n\nIMPORTANT: earlier seeded changes for this property already exist; produce something DIFFERENT IN KIND (another code site, another mechanism, another manifestation condition) from these:\n' + '\n'.join(prev) + '\n'
    open('/tmp/agent%s_prompt_%s.txt' % (tag, pid), 'w').write(s)
    print(pid, wt)
