"""Registry: which harnesses decide which property, with bounds and assumptions.
Every harness is a Go function in /verif/harness/<repo-relative package>/ that
is executed symbolically by the engine and natively for replay."""

P = "github.com/rigochain/rigo-go/"
STAKE = P + "ctrlers/stake."

A_COMMON = [
    "A-U256: holiman/uint256 arithmetic = 256-bit modular arithmetic (intercepted; cross-checked by engine self-test)",
    "A-TM: ABCI calls are serial (sync.Mutex/RWMutex are no-ops in the executor)",
    "A-SUPPLY: every single voting power <= 2^55 (so power*100 and sums of a few powers fit int64)",
    "formatting/logging are not subjects: fmt.Sprintf/Errorf produce opaque strings when arguments are symbolic",
]

LEDGER = P + "ledger."
A_STORE = [
    "A-IAVL: cosmos/iavl MutableTree + tm-db goleveldb behave as a versioned finite map (Get/Set/Remove/Has/Iterate ascending/SaveVersion v+1/Load latest/LazyLoadVersion(n<=0 -> latest, n>latest -> error)); root hash = injective function of the ordered write history; validated on every run by replaying sampled paths on the real goleveldb/iavl",
    "A-CODEC: json/proto/rlp Marshal = snapshot of exported fields (the repository's own Marshal*/Unmarshal* methods are executed), Unmarshal = fresh deep copy; decoding hostile concrete bytes returns an error",
]

CHECKS = {
    "C18": {
        "quick": [
            {"name": LEDGER + "ZZ_C18_Seq3", "reach": ["C18 end"], "bound": "2 keys x 3 operations out of {SetFinality,GetFinality,DelFinality,Set,Get,Del,Read,Commit,ImmutableLedgerAt.Read,Close+reopen}, symbolic values, then a full sweep of all views/versions and a final Commit"},
        ],
        "thorough": [
            {"name": LEDGER + "ZZ_C18_Seq3", "reach": ["C18 end"], "bound": "2 keys x 3 ops (+reopen)"},
            {"name": LEDGER + "ZZ_C18_Seq4", "reach": ["C18 end"], "bound": "2 keys x 4 ops (+reopen)", "validate": 40},
        ],
        "bounds": "operation sequences of length 3 (quick) / 4 (thorough) over 2 keys, <=5 versions; item values symbolic int64",
        "outside": "Cancel* operations and the mempool view of a key after a consensus delete (not fixed by the statement); longer sequences; more than 2 keys; IAVL/goleveldb internals (A-IAVL)",
        "assumptions": A_COMMON + A_STORE,
        "maxpaths": 3000000,
    },
    "C14": {
        "quick": [
            {"name": STAKE + "ZZ_C14_S1", "reach": ["S1 end"], "bound": "<=3 stakes, symbolic powers in (0,2^55], ratio in [0,100]"},
            {"name": STAKE + "ZZ_C14_S3", "reach": ["S3 end"], "bound": "<=4 marks in (0,2^40), symbolic window"},
        ],
        "bounds": "S1: <=3 stakes per delegatee; S3: <=4 marks",
        "outside": "more stakes/marks than the bound; jailing branch and governance punishment are decided by S2/S4/S5 when registered",
        "assumptions": A_COMMON,
    },
}
