"""Registry: which harnesses decide which property, with bounds and assumptions.
Every harness is a Go function in /verif/harness/<repo-relative package>/ that
is executed symbolically by the engine and natively for replay."""

P = "github.com/rigochain/rigo-go/"
STAKE = P + "ctrlers/stake."

A_COMMON = [
    "A-U256: holiman/uint256 arithmetic = 256-bit modular arithmetic (intercepted; cross-checked by engine self-test)",
    "A-TM: ABCI calls are serial (sync.Mutex/RWMutex are no-ops in the executor)",
    "A-SUPPLY: every single voting power <= 2^55 (so power*100 and sums of a few powers fit int64)",
    "formatting/logging are not subjects: fmt.Sprintf/Errorf produce opaque strings when arguments are symbolic",
]

CHECKS = {
    "C14": {
        "quick": [
            {"name": STAKE + "ZZ_C14_S1", "reach": ["S1 end"], "bound": "<=3 stakes, symbolic powers in (0,2^55], ratio in [0,100]"},
            {"name": STAKE + "ZZ_C14_S3", "reach": ["S3 end"], "bound": "<=4 marks in (0,2^40), symbolic window"},
        ],
        "bounds": "S1: <=3 stakes per delegatee; S3: <=4 marks",
        "outside": "more stakes/marks than the bound; jailing branch and governance punishment are decided by S2/S4/S5 when registered",
        "assumptions": A_COMMON,
    },
}
