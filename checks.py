"""Registry: which harnesses decide which property, with bounds and assumptions.
Every harness is a Go function in /verif/harness/<repo-relative package>/ that
is executed symbolically by the engine and natively for replay."""

P = "github.com/rigochain/rigo-go/"
STAKE = P + "ctrlers/stake."

A_COMMON = [
    "A-U256: holiman/uint256 arithmetic = 256-bit modular arithmetic (intercepted; cross-checked by engine self-test)",
    "A-TM: ABCI calls are serial (sync.Mutex/RWMutex are no-ops in the executor)",
    "A-SUPPLY: every single voting power <= 2^55 (so power*100 and sums of a few powers fit int64)",
    "formatting/logging are not subjects: fmt.Sprintf/Errorf produce opaque strings when arguments are symbolic",
    "A-CLOCK: time.Now (and tendermint's time.Now) returns an arbitrary instant between 2020 and 2096, not earlier than the previous reading on the path (or exactly the instant a harness sets with zzverif.ClockStart/SetClock; natively SetClock waits for the real clock)",
]

LEDGER = P + "ledger."
GOV = P + "ctrlers/gov."
A_STORE = [
    "A-IAVL: cosmos/iavl MutableTree + tm-db goleveldb behave as a versioned finite map (Get/Set/Remove/Has/Iterate ascending/SaveVersion v+1/Load latest/LazyLoadVersion(n<=0 -> latest, n>latest -> error)); root hash = injective function of the ordered write history; validated on every run by replaying sampled paths on the real goleveldb/iavl",
    "A-CODEC: json/proto/rlp Marshal = snapshot of exported fields (the repository's own Marshal*/Unmarshal* methods are executed), Unmarshal = fresh deep copy; decoding hostile concrete bytes returns an error",
]

NODE = P + "node."
OK_ALL = ["ok " + t for t in ("transfer", "staking", "unstaking", "proposal", "voting", "setdoc", "withdraw")]
TXB = 'genesis: 3 funded accounts (symbolic balances < 2^100), validators A0,A1 (symbolic power), symbolic governance parameters; 2 empty blocks; prelude block (proposal by A0 / reward issuance to A0 where the tx type needs it); then ONE transaction of each of the 7 native types with sender in {A0,A1,A2}, type-specific receivers (incl. zero address / account-less address), symbolic amount < 2^101, gas < 2^42, nonce in [0,3], gas price in {governance price, +1}'

CHECKS = {
    "SMOKE": {"quick": [{"name": NODE + "ZZ_Smoke", "reach": ["smoke end"]},
                        {"name": P + "libs.ZZ_Lib", "reach": ["lib end"], "bound": "engine robustness: sort.Slice, strings/strconv/bytes/hex/binary, errors.Is/As/%w, math/bits, math/big (pure Go), uint256 siblings, sync/atomic, maps"},
                        {"name": P + "libs.ZZ_Lib2", "reach": ["lib2 end"], "bound": "engine robustness: builders/buffers, generics, type switches, defer/recover, channels, labelled loops, aliasing, conversions"}], "assumptions": []},
    "C17": {
        "quick": [
            {"name": NODE + "ZZ_C17_E12", "reach": ["E12 succeeded", "E12 failed", "E12 end", "E12 native tx to contract"], "bound": "contracts deployed in block 3: R (pays the funded account X one unit, then REVERTs) and P in {STOP | call(third,1) STOP | call(third,1) REVERT | call(third,1) INVALID} with third in {X, R}; block 4: one transaction by the proposer or another account: call of P with symbolic value, plain transfer to P, a deployment with value, or a set-document transaction addressed to P; gas limit symbolic in [10,20999] or [300000,2^24]; then a read-only call at the committed height", "validate": 40},
            {"name": NODE + "ZZ_C17_E5", "reach": ["E5 setter succeeded", "E5 setter failed", "E5 end"], "bound": "storage-cell contract (program 7: RETURN slot 0 / slot 0 := calldata) deployed in block 3; three setter transactions with values out of {0,1,2}, by two senders, one of them (any) with a symbolic gas limit in [21000,2^24], the others with 200000, distributed over blocks 4 and 5 in all three ways; outcome, exact gas used (intrinsic + code + SSTORE per EIP-2929/2200/3529 - refund capped at 1/5), fee, nonce; storage read back by read-only calls at every committed height", "validate": 40},
            {"name": NODE + "ZZ_C17_E6", "reach": ["E6 end"], "bound": "factory contract (program 8: CREATE a child with empty code, RETURN its address) called in 2 or 3 separate transactions, in one block or one per block; return data = CreateAddress(factory, k), native nonces of factory and children = the EVM's", "validate": 12},
        ],
        "bounds": "8 hand-assembled programs, call depth <= 3, one contract transaction (E12) or three on one storage cell (E5)",
        "outside": "NOT CLAIMED: equivalence with the reference EVM for every program (logs, code, creates, self-destructs; return data, storage and exact gas only for the storage-cell program 7) - go-ethereum's interpreter, trie and big.Int code are behind the A-EVM stub; only the repository's glue (StateDBWrapper copy-in/copy-out and revert bookkeeping, EVMCtrler.ExecuteTrx, routing in runTrx/postRunTrx, callVM) is executed symbolically, for the call sequences these programs produce",
        "assumptions": A_COMMON + A_STORE + ["A-EVM: state.StateDB = journalled (balance, nonce, storage with dirty/committed layers, refund counter) map with snapshot/revert, address and slot access lists, Finalise; core.ApplyMessage per go-ethereum v1.10.23 state_transition.go with the interpreter replaced by the semantics of the 7 programs; gas left is an arbitrary (per transaction content) value <= limit - intrinsic for programs 0-6 and exactly metered (EIP-2929/2200/3529) for program 7", "A-SIG", "A-HASH"],
    },
    "C18": {
        "quick": [
            {"name": LEDGER + "ZZ_C18_Seq3", "reach": ["C18 end"], "bound": "2 keys x 3 operations out of {SetFinality,GetFinality,DelFinality,Set,Get,Del,Read,Commit,ImmutableLedgerAt.Read,Close+reopen}, symbolic values, then a full sweep of all views/versions and a final Commit"},
            {"name": LEDGER + "ZZ_C18_Seq3b", "reach": ["C18 end"], "bound": "as Seq3, starting from a ledger whose version 1 already holds key 0"},
            {"name": LEDGER + "ZZ_C18_Seq3c", "reach": ["C18 end", "C18 cancel undoes the pending change"], "bound": "as Seq3b without reopen, plus CancelSetFinality, CancelDelFinality, CancelSet, CancelDel: a cancel that undoes the single pending change of its key in that overlay restores the committed view (other cancels are outside the statement and end the path)"},
        ],
        "thorough": [
            {"name": LEDGER + "ZZ_C18_Seq3", "reach": ["C18 end"], "bound": "2 keys x 3 ops (+reopen)"},
            {"name": LEDGER + "ZZ_C18_Seq3b", "reach": ["C18 end"], "bound": "2 keys x 3 ops (+reopen), pre-seeded version 1"},
            {"name": LEDGER + "ZZ_C18_Seq4b", "reach": ["C18 end"], "bound": "2 keys x 4 ops, pre-seeded version 1", "validate": 40},
            {"name": LEDGER + "ZZ_C18_Seq4", "reach": ["C18 end"], "bound": "2 keys x 4 ops (+reopen)", "validate": 40},
            {"name": LEDGER + "ZZ_C18_Seq4c", "reach": ["C18 end", "C18 cancel undoes the pending change"], "bound": "2 keys x 4 ops incl. the four Cancel* operations, pre-seeded version 1", "validate": 40},
        ],
        "bounds": "operation sequences of length 3 (quick) / 4 (thorough) over 2 keys, <=5 versions; item values symbolic int64",
        "outside": "a Cancel* that does not undo the single pending change of its key, and the mempool view of a key after a consensus delete (neither is fixed by the statement); longer sequences; more than 2 keys; IAVL/goleveldb internals (A-IAVL)",
        "assumptions": A_COMMON + A_STORE,
        "maxpaths": 3000000,
    },
    "C01": {
        "quick": [
            {"name": LEDGER + "ZZ_C01_D1", "maporder": True, "native_repeat": 20, "reach": ["D1 end", "D1 two removals"], "bound": "two ledgers fed the same 1..3 updated items (symbolic values); EVERY permutation of every map iteration in SetFinality/Commit/refresh, independently per replica; with <=2 items also a second block with updates, a removal and a re-creation, and optionally single-item blocks up to 5 items followed by a block that removes two of them (the 4 pairs whose removal order changes the real IAVL root)"},
            {"name": LEDGER + "ZZ_C01_D3", "reach": ["D3 end"], "bound": "3 ledger keys with symbolic leading bytes: Less is a strict total order, sorting is input-order independent"},
            {"name": NODE + "ZZ_C06_M1", "reach": ["M1 end"], "bound": "node-local mempool / query traffic (twin of C06): one injected CheckTx or Query around block 3", "validate": 4},
            {"name": NODE + "ZZ_C07_R1", "reach": ["R1 end"], "bound": "a replica restarted at a block boundary against one that kept running (twin of C07): 'process' is node-local", "validate": 4},
            {"name": NODE + "ZZ_C01_D2", "native_repeat": 20, "reach": ["D2 end"], "bound": "twin applications in different data directories; replica A iterates every Go map ascending, replica B descending or rotated; genesis (2 validators in power bands, 3 accounts), 2 empty blocks, block 3 with two transactions from the menu {delegation, transfer, unbonding, deployment with symbolic gas limit} carrying symbolic / clock-relative transaction times, with votes, block 4 with a missed vote"},
        ],
        "bounds": "D1: all iteration orders for <=3 dirty keys; D2: two fixed alternative orders per map for one block with 2 transactions; data directory and wall clock differ between replicas: the model store's root hash ignores the directory; every time.Now reading is an arbitrary non-decreasing instant (2020..2096) under the executor, and in D2 the harness drives the clocks (replica B executes block 3 at the same instant as A or 4 s later, the first transaction's own time lies before, between or after)",
        "outside": "all permutations at application level; IAVL's own determinism (A-IAVL); encoding/json key order (A-CODEC); goroutine scheduling (none on the synchronous path: a `go` statement reached from an ABCI call makes the executor report 'unsupported'); contract execution",
        "assumptions": A_COMMON + A_STORE + ["A-SIG", "A-HASH"],
    },
    "C02": {
        "quick": [
            {"name": NODE + "ZZ_C02_V1", "reach": ["V1 end"] + OK_ALL, "bound": TXB + "; block with / without proposer; EndBlock"},
            {"name": NODE + "ZZ_C17_E12", "reach": ["E12 succeeded", "E12 failed"], "bound": "value conservation across the EVM boundary for the modelled contract programs (see C17)", "validate": 10},
            {"name": STAKE + "ZZ_C11_B3", "reach": ["B3 end"], "bound": "3 staking/unstaking transactions in one block on one delegatee (delete / re-create / modify): every stake stays recorded exactly once with its power (value not destroyed)"},
            {"name": STAKE + "ZZ_C12_O3", "reach": ["O3 end"], "bound": "refund of <=3 matured unbonding stakes: owners credited exactly power x 10^18"},
            {"name": STAKE + "ZZ_C12_O4", "reach": [], "bound": "two genesis stakes unbonding (known finding C12-K1: one refund lost)"},
        ],
        "bounds": "one transaction + block end from a symbolic genesis; staking sequences of 3; <=3 refunds",
        "outside": "value moved inside the EVM (contract storage / internal calls) beyond the copy-in/copy-out decided under C17; slashing (C14 shows that only the offender's stakes shrink); histories longer than the harness blocks except through the one-step argument",
        "assumptions": A_COMMON + A_STORE + ["A-SIG", "A-HASH", "A-GOV", "A-EVM for BeginBlock/Commit of the EVM controller (no contract transaction in these harnesses)"],
    },
    "C03": {
        "quick": [
            {"name": P + "ctrlers/types.ZZ_C03_I1", "reach": ["I1 equal encodings", "I1 different encodings"], "bound": "two symbolic transactions of the same type (8 types): all numeric fields symbolic over their full range (incl. every payload field), byte/string fields drawn from two values; equal signed encodings => equal fields"},
            {"name": P + "ctrlers/types.ZZ_C03_I7", "reach": ["I7 end", "I7 different chains"], "bound": "one symbolic transaction (8 types) and two chain ids from a menu of 11 (lengths 1..50; ids sharing their first 31/32/33/49 bytes; ids that are prefixes of each other): RLP and protobuf pre-images equal only for equal chain ids"},
            {"name": NODE + "ZZ_C03_I23", "reach": ["I23 success", "I23 forged rejected", "I23 honest failure"] + OK_ALL, "bound": TXB + "; signature: honest | signed by another key | signed for another chain id | one of 8 fields (amount, nonce, gas, receiver, time, version, sender, payload/gas price) altered after signing"},
            {"name": NODE + "ZZ_C03_I4", "reach": ["I4 end", "I4 honest second tx accepted"], "bound": "an honest transfer (symbolic amount) is delivered; then, in the same or the next block, a second transaction of the same sender (transfer or set-document, symbolic amount, other receiver, the then-current nonce) carrying the FIRST transaction's signature; crypto.Sig2Addr's own body is executed (only the curve recovery under it is a stub)"},
            {"name": NODE + "ZZ_C03_I5", "reach": ["I5 end"], "bound": "twin replicas, 4 validators (stake limiter active); replica B's block 3 starts with a forged transaction (delegation / unbonding / transfer / deployment from the block menu, signed with another account's key, optionally to an address without account), then both deliver the same honest menu transaction; block 4 with one more; transaction results, validator updates and application hashes compared"},
            {"name": NODE + "ZZ_C03_I6", "reach": ["I6 end", "I6 own chain accepted"], "bound": "after two blocks: nothing / a further Info call / a restart on a copy of the data directory; then a transfer (symbolic amount) signed for this chain, for the empty chain id or for another chain"},
            {"name": NODE + "ZZ_C17_E12", "reach": ["E12 failed", "E12 end"], "bound": "the contract path (twin of C17): call of / transfer to / deployment next to / set-document addressed to a deployed contract, honestly signed or signed with another account's key - a forged one is rejected without effect", "validate": 6},
        ],
        "bounds": "one transaction; 8 single-field alterations; one lifted signature after the signed transaction was processed; the RLP encoding is modelled as an injective function of the struct the repository hands to rlp.Encode (its own narrowing casts are executed)",
        "outside": "the cryptography itself (A-SIG); injectivity of go-ethereum's RLP for the encoded struct (A-CODEC); CheckTx (does not verify signatures by design and has no effects - C06)",
        "assumptions": A_COMMON + A_STORE + ["A-SIG: go-ethereum's SigToPub yields the signer's key only for the hash of exactly the signed bytes, otherwise an unrelated key (crypto.Sig2Addr, VerifyTrxRLP and the sender comparison are the repository's code and are executed)", "A-CODEC", "A-HASH", "A-GOV"],
    },
    "C04": {
        "quick": [
            {"name": NODE + "ZZ_C17_E12", "reach": ["E12 succeeded", "E12 failed"], "bound": "contract paths: one contract call / transfer to a contract / deployment / set-document addressed to a contract over the 4 modelled programs (see C17)", "validate": 10},
            {"name": NODE + "ZZ_C04_N12", "reach": ["N12 success", "N12 failure"] + OK_ALL, "bound": TXB + "; on success the same bytes are delivered again in the same block or in the next block; after Commit the committed account records are compared with the state in force"},
        ],
        "bounds": "one transaction + one replay",
        "outside": "contract programs other than the 4 modelled ones (A-EVM); exactly-once over arbitrary histories follows from N1 (a nonce only ever rises by one on success) and is cross-checked by the replay",
        "assumptions": A_COMMON + A_STORE + ["A-SIG", "A-HASH", "A-GOV"],
    },
    "C05": {
        "quick": [
            {"name": NODE + "ZZ_C17_E12", "reach": ["E12 succeeded", "E12 failed"], "bound": "contract paths: one contract call / transfer to a contract / deployment / set-document addressed to a contract over the 4 modelled programs (see C17)", "validate": 10},
            {"name": NODE + "ZZ_C05_A1", "reach": ["A1 failure", "A1 success"] + ["rejected " + t for t in ("transfer", "staking", "unstaking", "proposal", "voting", "setdoc", "withdraw")], "bound": TXB + "; after a failing tx every balance/nonce/name/doc/code marker of 5 accounts, bonded and unbonding stakes, rewards, the tracked proposal and the fee sum are compared, then an observer transfer A2->A1 with symbolic amount runs in the same block"},
        ],
        "bounds": "one failing transaction of a native type (every error return reachable from DeliverTx for these inputs) + one observer transaction",
        "outside": "contract storage/code (A-EVM); an empty receiver account created by a failing tx is equal to no account under the abstraction absent == zero balance/nonce, no name/doc/code",
        "assumptions": A_COMMON + A_STORE + ["A-SIG", "A-HASH", "A-GOV"],
    },
    "C16": {
        "quick": [
            {"name": NODE + "ZZ_C17_E12", "reach": ["E12 succeeded", "E12 failed"], "bound": "contract paths: one contract call / transfer to a contract / deployment / set-document addressed to a contract over the 4 modelled programs (see C17)", "validate": 10},
            {"name": NODE + "ZZ_C16_F12", "reach": ["F12 success", "F12 failure"] + OK_ALL, "bound": TXB + "; EndBlock with proposer A1"},
            {"name": NODE + "ZZ_C16_F5", "reach": ["F5 checktx admitted", "F5 delivered", "F5 rejected"], "bound": "one contract transaction (call of an externally owned account with one byte of data, or deployment of program 0) with gas limit in [1,2^21] under Test1 parameters with minTrxGas symbolic in [1,2^20]; CheckTx, then DeliverTx in block 3", "validate": 10},
        ],
        "bounds": "one native transaction + block end",
        "outside": "exact gas metering of the EVM (A-EVM: gas left is arbitrary); a governance price change between blocks (C15/G6 shows parameters switch only at Commit)",
        "assumptions": A_COMMON + A_STORE + ["A-SIG", "A-HASH", "A-GOV"],
    },
    "C06": {
        "quick": [
            {"name": NODE + "ZZ_C06_M1", "reach": ["M1 end"], "bound": "twin replicas; genesis with 4 validators (powers symbolic inside disjoint bands, so the stake limiter is active and the ranking fixed), 5 funded accounts, concrete Test1 governance parameters; blocks 1-2 empty; block 3 and block 4 each with one transaction from {delegation A3->A0/A1 of power 1 or 2^41, unstaking of a genesis stake, transfer A3->A4 of symbolic amount, contract deployment by A3}; replica B additionally serves ONE request at one of 5 positions around block 3 (before BeginBlock, before DeliverTx, before EndBlock, before Commit, after Commit): CheckTx of a transaction of the same menu (or of block 3's own transaction) or a Query (account / delegatee / total power / gov params)", "validate": 8},
            {"name": NODE + "ZZ_C06_M2", "reach": ["M2 end", "M2 unbonded and re-bonded"], "bound": "2 validators; block 3 = [A1 unbonds its only stake, A1 bonds again] (a ledger item deleted and re-created in one block); replica B serves a CheckTx of a delegation to A1 (symbolic power) at one of 5 positions of that block; blocks 4 and 5 with votes"},
            {"name": NODE + "ZZ_C06_M3", "reach": ["M3 end"], "bound": "2 validators, a contract (STOP or the storage cell) deployed in block 2; replica B serves, at one of 4 positions of block 3 (which carries a contract call or nothing), a CheckTx of a transfer to that contract or of a call of it (symbolic value); blocks 3 and 4 compared"},
            {"name": NODE + "ZZ_C06_M4", "reach": ["M4 end"], "bound": "2 validators; after the empty block 1 replica B serves a CheckTx of a delegation to a validator (symbolic power) or of a validator's unbonding; blocks 2 and 3 carry votes (rewards from the state of version 1): block outputs, application hashes and issued rewards compared"},
            {"name": NODE + "ZZ_C06_M5", "reach": ["M5 end", "M5 account created in the block"], "bound": "twin replicas, 3 holders + 2 validators; block 2 pays a symbolic amount to a key holder without an account; replica B serves one CheckTx (sent by the new account, or paying it; symbolic amount) between that DeliverTx and Commit; blocks 2-3 compared (hash, committed account records)"},
        ],
        "bounds": "one injected CheckTx/Query in 5 slots, 2 blocks observed (result codes, gas used, validator updates, application hash)",
        "outside": "more than one injected request (one suffices for a first divergence by the unwinding argument of DESIGN section 4/C06); interleavings finer than one ABCI call (the application mutex serialises them); symbolic governance parameters",
        "assumptions": A_COMMON + A_STORE + ["A-SIG", "A-HASH", "A-EVM (BeginBlock/Commit of the EVM controller only)"],
    },
    "C19": {
        "quick": [
            {"name": NODE + "ZZ_C19_Q1", "validate": 160, "reach": ["Q1 end"], "bound": "history of 3 committed blocks (genesis; transfer of a symbolic amount; delegation of symbolic power + reward issuance), block 4 in flight with a delivered transfer and a pending CheckTx; queries account x2, delegatee x2, stakes, stakes/total_power, reward, gov_params at height 0 (latest), 1, 2, 3 and 4 (future), repeated for the past height after block 4 is committed"},
            {"name": GOV + "ZZ_C19_Q2", "reach": ["Q2 end"], "bound": "governance controller: one proposal through ledger versions 1 (absent), 2 (voting), 3 (frozen), 4 (applied, removed), stopped after 2, 3 or 4 versions; by-hash proposal query at every height so far and at a future height"},
        ],
        "bounds": "heights 0..h+1 with h = 3; one in-flight block; one pending mempool check",
        "outside": "the proposal query (the handlers share the ImmutableLedgerAt path); stakes/voting_power (reads current parameters, not in the statement); vm_call; 'serving queries never alters what is committed' is decided by the C06 twin (Query injection)",
        "assumptions": A_COMMON + A_STORE + ["A-SIG", "A-HASH", "A-GOV", "query answers are compared after decoding them with the same JSON codec"],
    },
    "C07": {
        "quick": [
            {"name": NODE + "ZZ_C07_R1", "reach": ["R1 end"], "bound": "genesis with validators A0,A1 and 3 funded accounts, Test1 governance parameters with symbolic signing window and minimum in [1,3]; blocks 1-2 empty; block 3 with votes (A0 signs, A1 signs or not) and one transaction from {none, delegation A2->A0/A1 of symbolic power, transfer of symbolic amount, A1 unbonds its genesis stake}; restart on a copy of the data directory after block 3; blocks 4 (one transaction of the same menu) and 5 on both replicas; outputs compared and the validator updates of both replicas applied cumulatively to the set the engine holds", "validate": 8},
            {"name": NODE + "ZZ_C07_R2", "reach": ["R2 end"], "bound": "one validator signing every block (rewards issued), restart after block 2 (the block that announces the genesis validators), 9, 10, 11 or 12 (around the reward-hash checkpoint taken every 10th ledger version), two more blocks on both replicas; all paths are also replayed natively", "validate": 8},
        ],
        "bounds": "restart after h = 3, two blocks after the restart",
        "outside": "restart points other than after block 3; histories with governance changes or contract state before the restart; more than 2 validators",
        "assumptions": A_COMMON + A_STORE + ["A-SIG", "A-HASH", "A-GOV", "A-EVM (BeginBlock/Commit only)", "restart = new application object built by the real constructors + Info on a copy of the data directory (the application's Stop() leaves stores open)"],
    },
    "C08": {
        "quick": [
            {"name": NODE + "ZZ_C08_K1", "reach": ["K1 end"], "bound": "one block (optional menu transaction): inventory of durable writes via the verif hook"},
            {"name": NODE + "ZZ_C08_K3", "reach": ["K3 end"], "bound": "process death after InitChain / BeginBlock(1) / EndBlock(1) and before the first Commit; restart, Info, InitChain again, block 1"},
            {"name": NODE + "ZZ_C08_K2", "native_repeat": 0, "reach": ["K2 recovered", "K2 no crash", "K2 replay failed"], "bound": "twin: replica A never crashes; replica C dies immediately before the k-th durable write (k = 1..12, i.e. every write position of Commit and 'no crash') of block 3 (one menu transaction with votes; block 2 carried votes in which A1 signed or not); restart on a copy of the data directory; Info; replay of block 3 when the old height is reported; block 4 with one menu transaction on both"},
            {"name": NODE + "ZZ_C07_R2", "reach": ["R2 end"], "bound": "process death at a block boundary (twin of C07): the data directory is copied without a graceful shutdown after block 2, 9, 10, 11 or 12 and a new process continues on the copy; Info and the next two blocks compared with the node that kept running", "validate": 8},
        ],
        "bounds": "1 interrupted block, all 11 write positions of its Commit, 1 block after recovery",
        "outside": "torn writes inside one leveldb batch / SaveVersion and fsync semantics (each hooked write is atomic and durable in the model and natively); crashes in two consecutive blocks; the block with the periodic reward-hash record (every 10th height)",
        "assumptions": A_COMMON + A_STORE + ["A-SIG", "A-HASH", "A-EVM (BeginBlock/Commit only)", "hook: ledger.VerifPoint (build tag verif) is called immediately before each durable write; the crash is a panic raised by the hook that unwinds to the harness, the crashed application object is abandoned and a new one is built by the real constructors on a copy of the directory"],
    },
    "C09": {
        "quick": [
            {"name": NODE + "ZZ_C09_P1small", "reach": ["P1 end"], "bound": "one hostile transaction (garbage bytes | empty | TrxProto with type 0..9, sender in {known, unknown, 19 bytes}, receiver in {known, 21 bytes, zero}, payload in {absent, garbage, boundary-valued message}, symbolic amount/gas/nonce/time/price, signature in {garbage, genuine}) to DeliverTx or CheckTx; then a well-formed transfer, EndBlock, Commit", "validate": 6},
            {"name": NODE + "ZZ_C09_P2", "reach": ["P2 end"], "bound": "one Query: 11 paths x data length in {0,19,20,32,39,40,41} (vm_call: < 40 only) x height in [-2,5]; then an empty block"},
            {"name": NODE + "ZZ_C09_P3", "reach": ["P3 end"], "bound": TXB + "; delivered in a block or sent to CheckTx", "validate": 6},
            {"name": P + "ctrlers/vm/evm.ZZ_C09_P4", "reach": ["P4 end"], "bound": "the chain's own ecrecover precompile (address 0x01) run directly on call data of 15 lengths around the field boundaries (0..200 bytes), zero-filled with a symbolic recovery byte"},
            {"name": NODE + "ZZ_C09_P5", "reach": ["P5 end"], "bound": "a validator's proposal carrying one of 13 literal governance-parameter documents (well-formed, oversized decimal / hexadecimal, negative, wrongly typed, truncated), through CheckTx and DeliverTx; literal JSON is outside the codec model, so every explored path is replayed natively (validate = number of paths) and a panic of the real decoder is reported as native divergence", "validate": 40},
        ],
        "thorough": [
            {"name": NODE + "ZZ_C09_P3", "reach": ["P3 end"], "bound": TXB + "; delivered in a block or sent to CheckTx"},
            {"name": NODE + "ZZ_C09_P1", "reach": ["P1 end"], "bound": "as P1small with 7 sender shapes x 7 receiver shapes x 3 signature shapes", "validate": 20},
            {"name": NODE + "ZZ_C09_P2", "reach": ["P2 end"], "bound": "as quick"},
            {"name": P + "ctrlers/vm/evm.ZZ_C09_P4", "reach": ["P4 end"], "bound": "the chain's own ecrecover precompile (address 0x01) run directly on call data of 15 lengths around the field boundaries (0..200 bytes), zero-filled with a symbolic recovery byte"},
            {"name": NODE + "ZZ_C09_P5", "reach": ["P5 end"], "bound": "a validator's proposal carrying one of 13 literal governance-parameter documents (well-formed, oversized decimal / hexadecimal, negative, wrongly typed, truncated), through CheckTx and DeliverTx; literal JSON is outside the codec model, so every explored path is replayed natively (validate = number of paths) and a panic of the real decoder is reported as native divergence", "validate": 40},
        ],
        "bounds": "one hostile request after genesis + 1-2 empty blocks, 1 validator, 2 funded accounts; field lengths enumerated, numeric fields symbolic over their full range",
        "outside": "panics inside protobuf/RLP/JSON/iavl/go-ethereum on hostile bytes (A-CODEC: decoding is total - error or a well-typed message); vm_call with >= 40 bytes (needs the consensus engine's RPC environment); resource exhaustion; A-SUPPLY (balances < 2^100) and A-GOV (gas price < 2^64) exclude the AmountToPower / fee+amount overflow panics listed in DESIGN appendix B #10/#11",
        "assumptions": A_COMMON + A_STORE + ["A-SIG: signature recovery yields the signer's address only for exactly the signed message", "A-HASH", "A-EVM (contract-type transactions reach the EVM model)", "A-GOV"],
        "timeout_s": {"quick": 900, "thorough": 7200},
    },
    "C10": {
        "quick": [
            {"name": STAKE + "ZZ_C10_U1", "reach": ["U1 end"], "bound": "all pairs of subsets of a 4-address pool (address-sorted, duplicate-free), symbolic powers"},
            {"name": STAKE + "ZZ_C10_U23", "reach": ["U23 end"], "bound": "<=3 committed delegatees (+1 overlay-only), symbolic self/delegated power, symbolic MinValidatorStake, MaxValidatorCnt in {1,2,3}; blocks 2,3,4 with a committed change of delegatee 0 in between"},
            {"name": NODE + "ZZ_C07_R1", "reach": ["R1 end"], "bound": "validator updates across a restart (twin of C07): whatever the restarted node announces, applied to the set the consensus engine holds, gives the set the running node arrives at", "validate": 4},
        ],
        "bounds": "U1: <=4 old x <=4 new validators; U2/U3/U5: <=3 delegatees, 3 consecutive blocks",
        "outside": "more delegatees; Tendermint's own application of updates (A-TM); validator set after a process restart (shares the C07 restart check)",
        "assumptions": A_COMMON + A_STORE + ["A-GOV: governance parameters in sane ranges (ratios 0..100, 1<=maxValidatorCnt<=100, periods < 2^40)"],
    },
    "C11": {
        "quick": [
            {"name": STAKE + "ZZ_C11_B1", "reach": ["B1 end", "staking ok", "staking rejected", "unstaking ok", "unstaking rejected"], "bound": "state: delegatees A0,A1 each optional with a self stake and an optional delegated stake, optional unbonding stake, all powers symbolic; one staking or unstaking tx with arbitrary sender/target/stake reference/amount; then Commit"},
            {"name": STAKE + "ZZ_C14_S45", "reach": ["S45 end", "S45 jailed"], "bound": "slashing (0..2 pieces of evidence) and downtime jailing from the same arbitrary state, then the bookkeeping invariant"},
            {"name": STAKE + "ZZ_C11_B3", "reach": ["B3 end", "staking ok", "unstaking ok"], "bound": "one delegatee; 3 transactions in one block from {stake to A0 by A0/A2, unstake any existing stake by A0/A2} incl. delete/re-create/modify of the delegatee; then Commit"},
            {"name": STAKE + "ZZ_C11_B4", "reach": ["B4 end", "staking ok", "unstaking ok"], "bound": "the same arbitrary state; one staking / unstaking transaction run in CheckTx mode (Exec == false): delegatee records and the unbonding ledger - in-block view and what the next Commit persists - are unchanged"},
            {"name": STAKE + "ZZ_C10_U23", "reach": ["U23 end"], "bound": "power queries (twin of C10): 1..3 committed delegatees with symbolic self/delegated power, maxValidatorCnt 1..3; stakes/total_power = sum of all bonded power, stakes/voting_power = sum over the ranked, truncated validator set", "validate": 6},
        ],
        "bounds": "<=2 delegatees x <=3 stakes; 1 step from arbitrary state (B1), 3 steps in one block (B3)",
        "outside": "more stakes per delegatee; stake limiter active (needs >=3 validators)",
        "assumptions": A_COMMON + A_STORE + ["A-GOV: governance parameters in sane ranges", "accounts are a plain address->Account book in these harnesses (the account controller is exercised by node-level harnesses)"],
    },
    "C12": {
        "quick": [
            {"name": STAKE + "ZZ_C12_O12", "reach": ["O12 accepted", "O12 rejected"], "bound": "arbitrary state as in C11/B1, one unstaking tx with arbitrary sender/target/stake reference at a symbolic height"},
            {"name": STAKE + "ZZ_C12_O3", "reach": ["O3 end"], "bound": "1..3 unbonding stakes with symbolic owner/power/refund height, EndBlock+Commit at symbolic height h and h+1, unbonding period changed in between"},
            {"name": STAKE + "ZZ_C12_O4", "reach": [], "bound": "two genesis validators (zero TxHash) unbond in one block"},
            {"name": STAKE + "ZZ_C12_O5", "reach": ["O5 end"], "bound": "one genesis validator (initial stake with the all-zero TxHash) with or without a delegation; it unbonds the initial stake; unbonding period 0..2; blocks up to 3 after the refund height: every released stake refunded exactly once, unbonding ledger empty afterwards"},
            {"name": STAKE + "ZZ_C11_B4", "reach": ["B4 end", "unstaking ok"], "bound": "the same arbitrary state; one staking / unstaking transaction run in CheckTx mode (Exec == false): delegatee records and the unbonding ledger - in-block view and what the next Commit persists - are unchanged"},
            {"name": STAKE + "ZZ_C14_S45", "reach": ["S45 jailed"], "bound": "force-release by downtime jailing: every stake of the jailed validator is frozen with refund height = height + unbonding period in force"},
        ],
        "bounds": "<=2 delegatees, <=3 unbonding stakes, two consecutive block ends",
        "outside": "more concurrent unbonding stakes; unbonding-period changes between a force-release and maturity",
        "assumptions": A_COMMON + A_STORE + ["A-GOV"],
    },
    "C13": {
        "quick": [
            {"name": STAKE + "ZZ_C13_W12", "reach": ["W12 end", "W12 second block"], "bound": "2 delegatees x <=3 stakes at version 1, one more delegation at version 2; BeginBlock at heights 2..6 with votes (signed / power-matching symbolic per validator); at height 2 a second reward block after rewardPerPower changed to another symbolic value (same parameter version)"},
            {"name": STAKE + "ZZ_C13_W34", "reach": ["W34 accepted", "W34 rejected"], "bound": "one reward record (optional, committed or not) with two symbolic issuances; one withdraw tx with symbolic ReqAmt and Amount, then a second one"},
        ],
        "bounds": "<=2 validators voting, <=3 stakes each, heights 2..6",
        "outside": "the 4-block lag of Tendermint itself (A-TM); reward amounts >= 2^120",
        "assumptions": A_COMMON + A_STORE + ["A-GOV: rewardPerPower < 2^64"],
    },
    "C20": {
        "quick": [
            {"name": P + "types/crypto.ZZ_C20_Step", "reach": ["Step end", "Step save failed"], "bound": "one SignVote/SignProposal with symbolic height/round/type, block id in {nil,B1,B2}, timestamp in {t0,t0+1s} from an arbitrary last-sign state (none, or the record of an arbitrary earlier request); state file writable or not"},
            {"name": P + "types/crypto.ZZ_C20_Restart", "reach": ["Restart end"], "bound": "the signer as the node builds it (LoadOrGenSFilePV on key and state files, no passphrase): sign, 1 or 2 process restarts with nothing signed in between, second request (symbolic height/round/type/block id/timestamp)"},
            {"name": P + "types/crypto.ZZ_C20_Two", "reach": ["Two end"], "bound": "two requests from the initial state with an optional reload of the state file in between"},
        ],
        "bounds": "one inductive step from an arbitrary valid last-sign record (covers histories of any length and restarts between requests, because the step shows in-memory record == durable record on every return); 2-request bounded run as cross-check",
        "outside": "atomicity of tempfile.WriteFileAtomic itself; key-file encryption; POLRound of proposals fixed to -1",
        "assumptions": ["Restart harness: tendermint secp256k1 key generation / public key / address / Sign are A-SIG stubs under the executor (real natively); the key file is written without passphrase (the pbkdf2/AES path is not a subject)", "the signing key is replaced by a counting identity-signer (crypto.PrivKey interface) so that signing events are observable", "A-CODEC for tmjson / protoio (canonical vote = tuple of its fields)", "tmtime.Now is a fixed instant (only used to blank timestamps before comparing)"],
    },
    "C15": {
        "quick": [
            {"name": GOV + "ZZ_C15_G12", "reach": ["G12 accepted", "G12 rejected"], "bound": "2 validators (symbolic power) + 1 outsider as sender; symbolic start/period/applying heights and submission height; 0..2 options; symbolic governance parameters"},
            {"name": GOV + "ZZ_C15_G34", "reach": ["G34 accepted", "G34 rejected"], "bound": "stored proposal: 2 voters (symbolic power, optional earlier vote, optional re-vote), 2 options; one voting tx with arbitrary sender / proposal reference / symbolic choice and height"},
            {"name": GOV + "ZZ_C15_G567", "reach": ["G567 applied", "G567 nothing won", "G567 still open", "G567 common proposal passed", "G567 voter punished before the close"], "bound": "proposal with 3 voters x 2 options (symbolic powers, votes, re-vote), optionally one voter punished by evidence in an earlier block of the voting window (symbolic slash ratio and height), optionally a second proposal (parameter or off-chain 'common' type) due at the same height; EndBlock+Commit at a symbolic height before the applying height, then at the applying height"},
            {"name": GOV + "ZZ_C15_G8", "reach": ["G8 end", "G8 delivered vote accepted"], "bound": "stored proposal with 2 voters x 2 options (symbolic powers, earlier votes); inside the window one voter's vote is only checked (Exec == false), then the other voter's vote is delivered; consensus view and committed proposal hold delivered votes only"},
            {"name": GOV + "ZZ_C14_S2", "reach": ["S2 end"], "bound": "one open proposal with 3 voters (symbolic power, optional vote, optional re-vote) and 2 options; evidence against voter 0/1/2 or a stranger; symbolic slash ratio: every option's tally stays the sum of the recorded powers of the voters who chose it (also registered under C14)"},
        ],
        "bounds": "<=3 voters, <=2 options, <=2 proposals, <=1 punished voter; one life cycle (vote -> [punish] -> close -> apply -> commit)",
        "outside": "the JSON documents of the options themselves (A-CODEC: an option is an arbitrary GovParams value with a chosen subset of fields set); ties between two options that both reach 2/3 (possible only when the recorded total power is < 2, which includes a proposal whose whole recorded power was slashed away); evidence arriving in the closing block itself (freezeProposals evaluates the record committed by the previous block); proposals of non-GOVPARAMS type",
        "assumptions": A_COMMON + A_STORE + ["A-GOV: active parameters non-zero and in sane ranges; MergeGovParams treats a zero field of an option as 'unset'"],
    },
    "C14": {
        "quick": [
            {"name": STAKE + "ZZ_C14_S1", "reach": ["S1 end"], "bound": "<=3 stakes, symbolic powers in (0,2^55], ratio in [0,100]"},
            {"name": STAKE + "ZZ_C14_S3", "reach": ["S3 end"], "bound": "<=4 marks in (0,2^40), symbolic window"},
            {"name": STAKE + "ZZ_C14_S45", "reach": ["S45 end", "S45 jailed"], "bound": "state as in C11/B1 (2 delegatees x <=2 stakes, symbolic powers), <=2 earlier missed heights of A1, height 5 or 6, symbolic window / minimum in [1,6] and slash ratio; BeginBlock with evidence in {none, A0 once, A0 twice, unknown validator} and A1's vote signed or missed"},
            {"name": GOV + "ZZ_C14_S2", "reach": ["S2 end"], "bound": "one open proposal with 3 voters (symbolic power, optional vote, optional re-vote) and 2 options; evidence against voter 0/1/2 or a stranger; symbolic slash ratio"},
        ],
        "bounds": "S1: <=3 stakes per delegatee; S3: <=4 marks; S45: 2 delegatees x <=2 stakes, <=2 pieces of evidence; S2: 3 voters x 2 options",
        "outside": "more stakes / marks / voters than the bounds; evidence and downtime in the same block for the same validator",
        "assumptions": A_COMMON,
    },
}
