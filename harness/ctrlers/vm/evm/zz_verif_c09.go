package evm

// C09 (EVM part): the chain's own precompiled contract at address 0x01 is
// reachable with arbitrary call data by any contract transaction; it must
// answer every input without panicking.

import (
	"github.com/rigochain/rigo-go/zzverif"
)

// ZZ_C09_P4: rigo_ecrecover.Run on call data of every interesting length
// (around the 32-byte field boundaries and beyond 128), zero-filled except for
// a symbolic recovery byte.
func ZZ_C09_P4() {
	lens := []int{0, 1, 31, 32, 33, 63, 64, 65, 95, 96, 97, 127, 128, 129, 200}
	n := lens[zzverif.Choose("calldata.len", len(lens))]
	input := make([]byte, n)
	if n > 63 {
		input[63] = zzverif.NondetU8("calldata.v")
	}
	ok := func() (ok bool) {
		defer func() {
			if p := recover(); p != nil {
				ok = false
			}
		}()
		c := &rigo_ecrecover{}
		_ = c.RequiredGas(input)
		out, _ := c.Run(input)
		zzverif.Assert(len(out) == 0 || len(out) == 32, "P4 the precompile returns nothing or one word")
		return true
	}()
	zzverif.Assert(ok, "P4 the ecrecover precompile does not panic")
	zzverif.Event("P4", n)
	zzverif.Reach("P4 end")
}
