package evm

import (
	"github.com/rigochain/rigo-go/types"
)

// ZZCallVM exposes the read-only contract call (the vm_call query without the
// consensus engine's block-time lookup).
func ZZCallVM(c *EVMCtrler, from, to types.Address, data []byte, height, blockTime int64) (failed bool, err error) {
	r, xerr := c.callVM(from, to, data, height, blockTime)
	if xerr != nil {
		return true, xerr
	}
	return r.Failed(), nil
}

// ZZCallVMData is ZZCallVM returning the call's return data as well.
func ZZCallVMData(c *EVMCtrler, from, to types.Address, data []byte, height, blockTime int64) (ret []byte, failed bool, err error) {
	r, xerr := c.callVM(from, to, data, height, blockTime)
	if xerr != nil {
		return nil, true, xerr
	}
	return r.ReturnData, r.Failed(), nil
}
