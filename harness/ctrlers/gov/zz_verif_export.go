package gov

import (
	"github.com/rigochain/rigo-go/ctrlers/gov/proposal"
	"github.com/rigochain/rigo-go/ledger"
)

// ZZProposal returns the consensus-view proposal stored under txhash or nil.
func ZZProposal(gc *GovCtrler, txhash []byte) *proposal.GovProposal {
	p, _ := gc.proposalLedger.GetFinality(ledger.ToLedgerKey(txhash))
	return p
}
