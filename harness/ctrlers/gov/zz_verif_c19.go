package gov

// C19 (governance part): the proposal query at a height answers from the state
// committed at that height - whatever has happened to the proposal since.

import (
	"github.com/rigochain/rigo-go/ledger"
	"github.com/rigochain/rigo-go/zzverif"
	abcitypes "github.com/tendermint/tendermint/abci/types"
	tmjson "github.com/tendermint/tendermint/libs/json"
)

type zzPropAnswer struct {
	Status string `json:"status"`
}

// ZZ_C19_Q2: life cycle of one proposal over ledger versions
//   1: nothing, 2: proposed (voting ledger), 3: frozen, 4: applied and removed,
// stopped after 2, 3 or 4 versions; then the by-hash query at every height so far.
func ZZ_C19_Q2() {
	g := zzNewGov(0) // version 1: parameters only
	o0, _ := zzOption("opt0", 1<<16)
	last := 2 + zzverif.Choose("versions", 3)
	g.seedProposal(zzHash(0), 5, 10, 30, 2, 1, [][]byte{o0}, "p")
	_, _, _ = g.gc.Commit() // version 2: in the voting ledger
	if last >= 3 {
		prop, xerr := g.gc.proposalLedger.DelFinality(ledger.ToLedgerKey(zzHash(0)))
		zzverif.Assume(xerr == nil && prop != nil)
		_ = g.gc.frozenLedger.SetFinality(prop)
		_, _, _ = g.gc.Commit() // version 3: frozen
	}
	if last >= 4 {
		_, _ = g.gc.frozenLedger.DelFinality(ledger.ToLedgerKey(zzHash(0)))
		_, _, _ = g.gc.Commit() // version 4: applied, gone
	}
	want := map[int64]string{1: "", 2: "voting", 3: "frozen", 4: ""}
	for h := int64(1); h <= int64(last); h++ {
		bz, xerr := g.gc.Query(abcitypes.RequestQuery{Path: "proposal", Data: zzHash(0), Height: h})
		if want[h] == "" {
			zzverif.Assert(xerr != nil, "Q2 a proposal that is not part of the state committed at the queried height is not found")
			continue
		}
		zzverif.Assert(xerr == nil, "Q2 a proposal that is part of the state committed at the queried height is found")
		if xerr == nil {
			ans := &zzPropAnswer{}
			if err := tmjson.Unmarshal(bz, ans); err == nil {
				zzverif.Assert(ans.Status == want[h], "Q2 the proposal's status is the one committed at the queried height")
			} else {
				zzverif.Assert(false, "Q2 the answer is decodable")
			}
		}
	}
	// a height that does not exist yet is an error
	_, xerr := g.gc.Query(abcitypes.RequestQuery{Path: "proposal", Data: zzHash(0), Height: int64(last) + 1})
	zzverif.Assert(xerr != nil, "Q2 a future height is an error")
	zzverif.Event("Q2", last)
	zzverif.Reach("Q2 end")
}
