package gov

// C15 (governance) and C14/S2 (voting weight of a punished validator).

import (
	"encoding/json"

	"github.com/holiman/uint256"
	cfg "github.com/rigochain/rigo-go/cmd/config"
	"github.com/rigochain/rigo-go/ctrlers/gov/proposal"
	ctrlertypes "github.com/rigochain/rigo-go/ctrlers/types"
	"github.com/rigochain/rigo-go/genesis"
	"github.com/rigochain/rigo-go/ledger"
	"github.com/rigochain/rigo-go/types"
	"github.com/rigochain/rigo-go/types/bytes"
	"github.com/rigochain/rigo-go/zzverif"
	abcitypes "github.com/tendermint/tendermint/abci/types"
	tmlog "github.com/tendermint/tendermint/libs/log"
	tmproto "github.com/tendermint/tendermint/proto/tendermint/types"
)

const zzMaxPower = int64(1) << 55

func zzAddr(i int) types.Address {
	a := make([]byte, 20)
	a[0] = 0xA0 + byte(i)
	a[19] = byte(i + 1)
	return a
}

func zzHash(i int) []byte {
	h := make([]byte, 32)
	h[0] = 0xC0 + byte(i)
	h[31] = byte(i + 1)
	return h
}

// zzStake is the IStakeHandler the governance controller sees.
type zzStake struct {
	addrs  []int
	powers []int64
}

func (s *zzStake) Validators() ([]*abcitypes.Validator, int64) {
	var vs []*abcitypes.Validator
	t := int64(0)
	for i, a := range s.addrs {
		vs = append(vs, &abcitypes.Validator{Address: zzAddr(a), Power: s.powers[i]})
		t += s.powers[i]
	}
	return vs, t
}
func (s *zzStake) IsValidator(addr types.Address) bool {
	for _, a := range s.addrs {
		if bytes.Compare(zzAddr(a), addr) == 0 {
			return true
		}
	}
	return false
}
func (s *zzStake) TotalPowerOf(types.Address) int64     { return 0 }
func (s *zzStake) SelfPowerOf(types.Address) int64      { return 0 }
func (s *zzStake) DelegatedPowerOf(types.Address) int64 { return 0 }

type zzG struct {
	gc     *GovCtrler
	params *ctrlertypes.GovParams
	stake  *zzStake
	height int64
}

func zzNewGov(nvals int) *zzG {
	conf := cfg.DefaultConfig()
	conf.DBPath = zzverif.TempDir()
	gc, err := NewGovCtrler(conf, tmlog.NewNopLogger())
	if err != nil {
		panic(err)
	}
	g := &zzG{gc: gc, params: ctrlertypes.ZZSymGovParams("gov", ctrlertypes.ZZAllGovFields), stake: &zzStake{}}
	for i := 0; i < nvals; i++ {
		g.stake.addrs = append(g.stake.addrs, i)
		g.stake.powers = append(g.stake.powers, zzverif.NondetI64In("valpower", 1, zzMaxPower))
	}
	if xerr := gc.InitLedger(&genesis.GenesisAppState{GovParams: g.params}); xerr != nil {
		panic(xerr)
	}
	if _, _, xerr := gc.Commit(); xerr != nil {
		panic(xerr)
	}
	g.height = 2
	return g
}

func (g *zzG) txctx(from int, to types.Address, typ int32, payload ctrlertypes.ITrxPayload, txhash []byte) *ctrlertypes.TrxContext {
	tx := &ctrlertypes.Trx{Version: 1, Time: 1, From: zzAddr(from), To: to, Amount: uint256.NewInt(0), Gas: 10, GasPrice: g.gc.GasPrice(), Type: typ, Payload: payload}
	return &ctrlertypes.TrxContext{Exec: true, Tx: tx, TxHash: txhash, Height: g.height, GovHandler: g.gc, StakeHandler: g.stake}
}

func (g *zzG) exec(ctx *ctrlertypes.TrxContext) bool {
	if xerr := g.gc.ValidateTrx(ctx); xerr != nil {
		return false
	}
	return g.gc.ExecuteTrx(ctx) == nil
}

func (g *zzG) blockCtx(evs []abcitypes.Evidence) *ctrlertypes.BlockContext {
	req := abcitypes.RequestBeginBlock{Header: tmproto.Header{Height: g.height}, ByzantineValidators: evs}
	return ctrlertypes.NewBlockContext(req, g.gc, nil, g.stake)
}

func zzOption(tag string, mask uint32) ([]byte, *ctrlertypes.GovParams) {
	p := ctrlertypes.ZZSymGovParams(tag, mask)
	bz, err := json.Marshal(p)
	if err != nil {
		panic(err)
	}
	return bz, p
}

// ZZ_C15_G12: a proposal transaction with arbitrary sender and symbolic
// heights against symbolic governance parameters.
func ZZ_C15_G12() {
	g := zzNewGov(2)
	g.height = zzverif.NondetI64In("height", 2, 1<<40)
	from := zzverif.Choose("from", 3) // 2 = not a validator
	to := types.ZeroAddress()
	if zzverif.Choose("to.nonzero", 2) == 1 {
		to = zzAddr(1)
	}
	start := zzverif.NondetI64In("start", 0, 1<<41)
	period := zzverif.NondetI64In("period", 0, 1<<41)
	applying := zzverif.NondetI64In("applying", 0, 1<<43)
	nopts := zzverif.Choose("nopts", 3)
	var opts [][]byte
	for i := 0; i < nopts; i++ {
		o, _ := zzOption("opt", 1<<16)
		opts = append(opts, o)
	}
	pl := &ctrlertypes.TrxPayloadProposal{Message: "m", StartVotingHeight: start, VotingPeriodBlocks: period, ApplyingHeight: applying,
		OptType: proposal.PROPOSAL_GOVPARAMS, Options: opts}
	ok := g.exec(g.txctx(from, to, ctrlertypes.TRX_PROPOSAL, pl, zzHash(0)))
	prop, _ := g.gc.proposalLedger.GetFinality(ledger.ToLedgerKey(zzHash(0)))
	if !ok {
		zzverif.Assert(prop == nil, "G1 rejected proposal is not stored")
		zzverif.Reach("G12 rejected")
		return
	}
	zzverif.Assert(from < 2, "G1 only a current validator can submit a proposal")
	zzverif.Assert(types.IsZeroAddress(to), "G1 'to' must be the zero address")
	zzverif.Assert(start > g.height, "G1 voting starts after the submission height")
	zzverif.Assert(period >= g.params.MinVotingPeriodBlocks() && period <= g.params.MaxVotingPeriodBlocks(), "G1 voting period within governance bounds")
	zzverif.Assert(applying >= start+period+g.params.LazyApplyingBlocks(), "G1 applying height >= end of voting + lazy applying blocks")
	zzverif.Assert(nopts >= 1, "G1 at least one option")
	zzverif.Assert(prop != nil, "G2 accepted proposal is stored")
	if prop == nil {
		return
	}
	zzverif.Assert(len(prop.Voters) == 2, "G2 voters = validators at submission")
	sum := int64(0)
	for i := 0; i < 2; i++ {
		v := prop.Voters[zzAddr(i).String()]
		zzverif.Assert(v != nil, "G2 every validator is a voter")
		if v != nil {
			zzverif.Assert(v.Power == g.stake.powers[i] && v.Choice == proposal.NOT_CHOICE, "G2 voter power = validator power at submission, no choice yet")
		}
		sum += g.stake.powers[i]
	}
	zzverif.Assert(prop.TotalVotingPower == sum, "G2 total voting power = sum of voter powers")
	zzverif.Assert(prop.MajorityPower == (sum*2)/3, "G2 majority = floor(2/3 total)")
	zzverif.Assert(prop.StartVotingHeight == start && prop.EndVotingHeight == start+period && prop.ApplyingHeight == applying, "G2 heights recorded")
	zzverif.Reach("G12 accepted")
}

// zzSeedOptType is the proposal type used by seedProposal (GOVPARAMS unless a harness sets it).
var zzSeedOptType int32 = proposal.PROPOSAL_GOVPARAMS

type zzPropSpec struct {
	nvoters int
	powers  []int64
	choices []int32
	nopts   int
}

// zzSeedProposal stores (and commits) a proposal with nvoters voters of
// symbolic power, some of whom have already voted, and nopts options.
func (g *zzG) seedProposal(txhash []byte, start, period, applying int64, nvoters, nopts int, opts [][]byte, tag string) *zzPropSpec {
	sp := &zzPropSpec{nvoters: nvoters, nopts: nopts}
	voters := map[string]*proposal.Voter{}
	total := int64(0)
	for i := 0; i < nvoters; i++ {
		p := zzverif.NondetI64In(tag+".voterpower", 1, zzMaxPower)
		sp.powers = append(sp.powers, p)
		sp.choices = append(sp.choices, -1)
		voters[zzAddr(i).String()] = &proposal.Voter{Addr: zzAddr(i), Power: p, Choice: proposal.NOT_CHOICE}
		total += p
	}
	prop, xerr := proposal.NewGovProposal(txhash, zzSeedOptType, start, period, total, applying, voters, opts...)
	if xerr != nil {
		panic(xerr)
	}
	for i := 0; i < nvoters; i++ {
		c := int32(zzverif.Choose(tag+".voted", nopts+1)) - 1
		if c >= 0 {
			if xerr := prop.DoVote(zzAddr(i), c); xerr != nil {
				panic(xerr)
			}
			sp.choices[i] = c
		}
	}
	// the latest vote replaces earlier ones: voter 0 may vote a second time
	if c := int32(zzverif.Choose(tag+".revote", nopts+1)) - 1; c >= 0 {
		if xerr := prop.DoVote(zzAddr(0), c); xerr != nil {
			panic(xerr)
		}
		sp.choices[0] = c
	}
	_ = g.gc.proposalLedger.SetFinality(prop)
	return sp
}

func (sp *zzPropSpec) tally(opt int) int64 {
	t := int64(0)
	for i := 0; i < sp.nvoters; i++ {
		if int(sp.choices[i]) == opt {
			t += sp.powers[i]
		}
	}
	return t
}

func zzOptVotes(prop *proposal.GovProposal, optBytes []byte) int64 {
	for _, o := range prop.Options {
		if zzverif.SameBytes(o.Option(), optBytes) {
			return o.Votes()
		}
	}
	return -1
}

// ZZ_C15_G34: one voting transaction on a stored proposal.
func ZZ_C15_G34() {
	g := zzNewGov(0)
	start := zzverif.NondetI64In("start", 3, 1<<40)
	period := zzverif.NondetI64In("period", 1, 1<<20)
	o0, _ := zzOption("opt0", 1<<16)
	o1, _ := zzOption("opt1", 1<<7)
	opts := [][]byte{o0, o1}
	sp := g.seedProposal(zzHash(0), start, period, start+period+10, 2, 2, opts, "p")
	_, _, _ = g.gc.Commit()
	g.height = zzverif.NondetI64In("height", 3, 1<<41)
	from := zzverif.Choose("from", 3) // 2 = outsider
	choice := int32(zzverif.NondetI64In("choice", -2, 3))
	target := zzHash(zzverif.Choose("target", 2)) // 1 = unknown proposal
	ok := g.exec(g.txctx(from, types.ZeroAddress(), ctrlertypes.TRX_VOTING, &ctrlertypes.TrxPayloadVoting{TxHash: target, Choice: choice}, zzHash(9)))
	prop, _ := g.gc.proposalLedger.GetFinality(ledger.ToLedgerKey(zzHash(0)))
	zzverif.Assert(prop != nil, "G3 proposal still stored")
	if prop == nil {
		return
	}
	if ok {
		zzverif.Assert(from < 2, "G3 only recorded voters can vote")
		zzverif.Assert(target[0] == zzHash(0)[0], "G3 vote names an existing proposal")
		zzverif.Assert(g.height >= start && g.height <= start+period, "G4 vote only inside the voting window")
		zzverif.Assert(choice >= 0 && choice < 2, "G4 choice names an existing option")
		if from < 2 {
			sp.choices[from] = choice
		}
		zzverif.Reach("G34 accepted")
	} else {
		zzverif.Reach("G34 rejected")
	}
	for o, ob := range opts {
		zzverif.Assert(zzOptVotes(prop, ob) == sp.tally(o), "G3 option tally = sum of the power of the voters whose latest choice it is")
	}
	for i := 0; i < 2; i++ {
		v := prop.Voters[zzAddr(i).String()]
		zzverif.Assert(v != nil && v.Power == sp.powers[i] && v.Choice == sp.choices[i], "G3 voter record: snapshot power, latest choice")
	}
	sum := sp.powers[0] + sp.powers[1]
	zzverif.Assert(prop.TotalVotingPower == sum && prop.MajorityPower == (sum*2)/3, "G3 totals unchanged by voting")
}

// ZZ_C15_G567: end of voting, freezing, application, merge, activation at
// Commit, query; optionally two proposals due in the same block (G7).
func ZZ_C15_G567() {
	g := zzNewGov(0)
	two := zzverif.Choose("two", 2) == 1
	end := zzverif.NondetI64In("end", 3, 1<<30)
	applying := zzverif.NondetI64In("applying", 4, 1<<31)
	zzverif.Assume(applying > end)
	oA, pA := zzOption("optA", 1<<16|1<<1) // slashRatio, maxValidatorCnt
	oB, _ := zzOption("optB", 1<<7)       // gasPrice
	sp := g.seedProposal(zzHash(0), end-1, 1, applying, 3, 2, [][]byte{oA, oB}, "p")
	var sp2 *zzPropSpec
	var pC *ctrlertypes.GovParams
	secondCommon := false
	if two {
		var oC []byte
		oC, pC = zzOption("optC", 1<<5|1<<16) // lazyRewardBlocks, slashRatio
		// the second proposal is either a parameter proposal or an off-chain ("common")
		// one, whose options - whatever they contain - never touch the parameters
		if zzverif.Choose("second.common", 2) == 1 {
			zzSeedOptType, secondCommon = proposal.PROPOSAL_COMMON, true
		}
		sp2 = g.seedProposal(zzHash(1), end-1, 1, applying, 1, 1, [][]byte{oC}, "q")
		zzSeedOptType = proposal.PROPOSAL_GOVPARAMS
	}
	_, _, _ = g.gc.Commit()
	old := g.params

	// ---- block at height h1: freeze (or not)
	g.height = zzverif.NondetI64In("h1", 3, 1<<31)
	zzverif.Assume(g.height < applying)
	// optionally one of the recorded voters is punished (byzantine evidence) in
	// an earlier block, inside the voting window: its recorded power and the
	// votes it cast shrink together, so the 2/3 rule below is evaluated on the
	// reduced record (round 8, seed C15-h).  Evidence arriving in the closing
	// block itself is outside the claim: freezeProposals evaluates the record
	// committed by the previous block and the statement does not say otherwise.
	h1 := g.height
	if target := zzverif.Choose("punished", 4); target < 3 {
		g.height = zzverif.NondetI64In("hp", 2, 1<<30)
		zzverif.Assume(g.height <= end && g.height < h1)
		ratio := g.params.SlashRatio()
		ev := abcitypes.Evidence{Type: abcitypes.EvidenceType_DUPLICATE_VOTE, Validator: abcitypes.Validator{Address: zzAddr(target), Power: 1}, Height: g.height - 1}
		_, xerrP := g.gc.BeginBlock(g.blockCtx([]abcitypes.Evidence{ev}))
		zzverif.Assert(xerrP == nil, "G5 BeginBlock with evidence succeeds")
		_, xerrP = g.gc.EndBlock(g.blockCtx(nil))
		zzverif.Assert(xerrP == nil, "G5 EndBlock of the punishing block succeeds")
		_, _, _ = g.gc.Commit()
		wantP := sp.powers[target] - sp.powers[target]*ratio/100
		if wantP <= 0 {
			wantP = 0
			sp.choices[target] = -1
		}
		sp.powers[target] = wantP
		// the punishment reaches every open proposal that records the offender:
		// the second proposal's only voter is voter 0
		if sp2 != nil && target == 0 {
			w2 := sp2.powers[0] - sp2.powers[0]*ratio/100
			// a proposal whose whole recorded power was slashed away has a 2/3
			// threshold of zero: degenerate, outside the claim (like totals < 2)
			zzverif.Assume(w2 > 0)
			sp2.powers[0] = w2
		}
		zzverif.Assume(sp.powers[0]+sp.powers[1]+sp.powers[2] >= 2)
		zzverif.Reach("G567 voter punished before the close")
	}
	g.height = h1
	_, xerr := g.gc.EndBlock(g.blockCtx(nil))
	zzverif.Assert(xerr == nil, "G5 EndBlock succeeds")
	_, _, _ = g.gc.Commit()
	ctrlertypes.ZZGovParamsAssertEq(&g.gc.GovParams, old, "G6 parameters unchanged before the applying height")
	closed := end < g.height
	sum := sp.powers[0] + sp.powers[1] + sp.powers[2]
	major := (sum * 2) / 3
	tA, tB := sp.tally(0), sp.tally(1)
	winner := -1
	if tA >= major && tA >= tB {
		winner = 0
	}
	if tB >= major && tB > tA {
		winner = 1
	}
	open, _ := g.gc.proposalLedger.Read(ledger.ToLedgerKey(zzHash(0)))
	frz, _ := g.gc.frozenLedger.Read(ledger.ToLedgerKey(zzHash(0)))
	if !closed {
		zzverif.Assert(open != nil && frz == nil, "G5 a proposal is not closed before its voting window ended")
		zzverif.Reach("G567 still open")
		return
	}
	zzverif.Assert(open == nil, "G5 closed proposal leaves the voting ledger")
	if tA == tB && tA >= major {
		// both options hold 2/3?  impossible unless degenerate (major == 0) – tie: not fixed by the statement
		zzverif.Reach("G567 tie")
		return
	}
	if winner < 0 {
		zzverif.Assert(frz == nil, "G5 without a 2/3 option the proposal is dropped")
	} else {
		zzverif.Assert(frz != nil, "G5 a proposal with a 2/3 option is kept for application")
		if frz != nil {
			zzverif.Assert(frz.MajorOption != nil, "G5 winning option recorded")
			if frz.MajorOption != nil {
				want := oA
				if winner == 1 {
					want = oB
				}
				zzverif.Assert(zzverif.SameBytes(frz.MajorOption.Option(), want), "G5 the recorded winner is the option holding >= 2/3")
			}
		}
	}
	win2 := false
	if two {
		win2 = sp2.tally(0) >= (sp2.powers[0]*2)/3
		if !win2 && winner < 0 {
			zzverif.Reach("G567 nothing won")
			return
		}
	} else if winner < 0 {
		zzverif.Reach("G567 nothing won")
		return
	}

	// ---- block at the applying height
	g.height = applying
	_, xerr = g.gc.EndBlock(g.blockCtx(nil))
	zzverif.Assert(xerr == nil, "G6 EndBlock at the applying height succeeds")
	ctrlertypes.ZZGovParamsAssertEq(&g.gc.GovParams, old, "G6 new parameters are not active before Commit")
	_, _, _ = g.gc.Commit()
	want := old
	if winner == 0 {
		want = ctrlertypes.ZZGovOverlay(want, pA)
	} else if winner == 1 {
		pB := ctrlertypes.ZZSymGovParams("unused", 0)
		_ = json.Unmarshal(oB, pB)
		want = ctrlertypes.ZZGovOverlay(want, pB)
	}
	if two && win2 && !secondCommon {
		if winner >= 0 {
			zzverif.Known("C15-F1", true) // two proposals applied in one block
		}
		want = ctrlertypes.ZZGovOverlay(want, pC)
	}
	if two && win2 && secondCommon {
		zzverif.Reach("G567 common proposal passed")
	}
	ctrlertypes.ZZGovParamsAssertEq(&g.gc.GovParams, want, "G6/G7 active parameters = previous ones overlaid with every applied winning option")
	stored, _ := g.gc.paramsLedger.Read(ledger.ToLedgerKey(make([]byte, 32)))
	zzverif.Assert(stored != nil, "G6 parameters record exists")
	if stored != nil {
		ctrlertypes.ZZGovParamsAssertEq(stored, &g.gc.GovParams, "G6 active parameters = committed gov_params record (what the query returns)")
	}
	zzverif.Reach("G567 applied")
}

// ZZ_C14_S2: governance punishment of a byzantine validator.
func ZZ_C14_S2() {
	g := zzNewGov(0)
	o0, _ := zzOption("opt0", 1<<16)
	o1, _ := zzOption("opt1", 1<<7)
	opts := [][]byte{o0, o1}
	sp := g.seedProposal(zzHash(0), 5, 10, 30, 3, 2, opts, "p")
	_, _, _ = g.gc.Commit()
	target := zzverif.Choose("byzantine", 4) // 3 = not a voter
	g.height = 6
	ratio := g.params.SlashRatio()
	ev := abcitypes.Evidence{Type: abcitypes.EvidenceType_DUPLICATE_VOTE, Validator: abcitypes.Validator{Address: zzAddr(target), Power: 1}, Height: 5}
	_, xerr := g.gc.BeginBlock(g.blockCtx([]abcitypes.Evidence{ev}))
	zzverif.Assert(xerr == nil, "S2 BeginBlock succeeds")
	prop, _ := g.gc.proposalLedger.GetFinality(ledger.ToLedgerKey(zzHash(0)))
	zzverif.Assert(prop != nil, "S2 proposal still there")
	if prop == nil {
		return
	}
	total := int64(0)
	for i := 0; i < 3; i++ {
		wantP := sp.powers[i]
		if i == target {
			wantP -= sp.powers[i] * ratio / 100
		}
		v := prop.Voters[zzAddr(i).String()]
		if wantP <= 0 {
			zzverif.Assert(v == nil, "S2 a voter slashed to zero is dropped")
			sp.choices[i] = -1
		} else {
			zzverif.Assert(v != nil, "S2 other voters stay")
			if v != nil {
				zzverif.Assert(v.Power == wantP, "S2 only the offender's voting weight shrinks, by floor(p*ratio/100)")
				zzverif.Assert(v.Choice == sp.choices[i], "S2 choices unchanged")
			}
		}
		sp.powers[i] = wantP
		if wantP > 0 {
			total += wantP
		}
	}
	for o, ob := range opts {
		zzverif.Assert(zzOptVotes(prop, ob) == sp.tally(o), "S2 option tallies are re-weighted with the reduced power")
	}
	zzverif.Assert(prop.TotalVotingPower == total, "S2 total voting power follows")
	zzverif.Assert(prop.MajorityPower == (total*2)/3, "S2 majority follows")
	zzverif.Reach("S2 end")
}

// ZZ_C15_G8: a vote that was only checked (mempool, Exec == false) is not a
// vote: it neither shows in the consensus view nor is it carried into the
// committed proposal by a later delivered vote of somebody else.
func ZZ_C15_G8() {
	g := zzNewGov(0)
	o0, _ := zzOption("opt0", 1<<16)
	o1, _ := zzOption("opt1", 1<<7)
	opts := [][]byte{o0, o1}
	sp := g.seedProposal(zzHash(0), 5, 10, 30, 2, 2, opts, "p")
	_, _, _ = g.gc.Commit()
	g.height = zzverif.NondetI64In("height", 5, 15)
	checker := zzverif.Choose("checked.voter", 2)
	c0 := int32(zzverif.Choose("checked.choice", 2))
	ctx := g.txctx(checker, types.ZeroAddress(), ctrlertypes.TRX_VOTING, &ctrlertypes.TrxPayloadVoting{TxHash: zzHash(0), Choice: c0}, zzHash(8))
	ctx.Exec = false
	_ = g.exec(ctx)
	// a delivered vote of the other voter
	other := 1 - checker
	c1 := int32(zzverif.Choose("delivered.choice", 2))
	if g.exec(g.txctx(other, types.ZeroAddress(), ctrlertypes.TRX_VOTING, &ctrlertypes.TrxPayloadVoting{TxHash: zzHash(0), Choice: c1}, zzHash(9))) {
		sp.choices[other] = c1
		zzverif.Reach("G8 delivered vote accepted")
	}
	check := func(prop *proposal.GovProposal, tag string) {
		zzverif.Assert(prop != nil, tag+": proposal present")
		if prop == nil {
			return
		}
		for o, ob := range opts {
			zzverif.Assert(zzOptVotes(prop, ob) == sp.tally(o), tag+": option tally = delivered votes only")
		}
		for i := 0; i < 2; i++ {
			v := prop.Voters[zzAddr(i).String()]
			zzverif.Assert(v != nil && v.Choice == sp.choices[i], tag+": a voter's recorded choice is its latest delivered vote")
		}
	}
	fin, _ := g.gc.proposalLedger.GetFinality(ledger.ToLedgerKey(zzHash(0)))
	check(fin, "G8 consensus view")
	_, _, _ = g.gc.Commit()
	com, _ := g.gc.proposalLedger.Read(ledger.ToLedgerKey(zzHash(0)))
	check(com, "G8 committed")
	zzverif.Reach("G8 end")
}
