package stake

// C13: rewards only for signed blocks, proportional to the stake recorded at
// the height the voting power came from; withdrawals exact.

import (
	"github.com/holiman/uint256"
	ctrlertypes "github.com/rigochain/rigo-go/ctrlers/types"
	"github.com/rigochain/rigo-go/ledger"
	"github.com/rigochain/rigo-go/zzverif"
	abcitypes "github.com/tendermint/tendermint/abci/types"
)

func (w *zzWorld) cumulated(i int) *uint256.Int {
	r, _ := w.sc.rewardLedger.GetFinality(ledger.ToLedgerKey(zzAddr(i)))
	if r == nil {
		return uint256.NewInt(0)
	}
	return r.GetCumulated()
}

// ZZ_C13_W12: the reward loop of BeginBlock.  Version 1 holds state X, version
// 2 a different state Y (an extra delegation to A0), versions 3.. are empty.
// At height h the stakes of version max(h-4,1) decide (W2), every stake bonded
// to a signing validator whose vote power matches earns power*rewardPerPower,
// nobody else earns anything (W1).
func ZZ_C13_W12() {
	w := zzSeed(2, false) // version 1 = X
	x := append([]*zzStakeRec(nil), w.stakes...)
	// version 2 = Y: one more delegation A2 -> A0 (if A0 exists)
	var y []*zzStakeRec
	y = append(y, x...)
	if d, _ := w.sc.delegateeLedger.GetFinality(ledger.ToLedgerKey(zzAddr(0))); d != nil {
		p := zzPower("extra")
		// (as the staking transaction of block 2 records it: start height = height + 1)
		_ = d.AddStake(NewStakeWithPower(zzAddr(2), zzAddr(0), p, 3, zzHash(5)))
		_ = w.sc.delegateeLedger.SetFinality(d)
		y = append(y, &zzStakeRec{hash: zzHash(5), from: 2, to: 0, power: p, live: true})
	}
	_, _, _ = w.sc.Commit() // version 2
	h := int64(2 + zzverif.Choose("height", 5)) // 2..6
	for v := int64(3); v < h; v++ {
		_, _, _ = w.sc.Commit()
	}
	basis := x
	if h-4 >= 2 {
		basis = y
	}
	if h == 4 {
		zzverif.Known("C13-F1", true)
	}
	total := func(i int) int64 {
		s := int64(0)
		for _, r := range basis {
			if r.to == i {
				s += r.power
			}
		}
		return s
	}
	var votes []abcitypes.VoteInfo
	signed := [2]bool{}
	match := [2]bool{}
	for i := 0; i < 2; i++ {
		signed[i] = zzverif.Choose("signed", 2) == 1
		match[i] = zzverif.Choose("powermatch", 2) == 1
		vp := total(i)
		if !match[i] {
			vp = vp + 1
		}
		votes = append(votes, abcitypes.VoteInfo{Validator: abcitypes.Validator{Address: zzAddr(i), Power: vp}, SignedLastBlock: signed[i]})
	}
	// keep the downtime branch quiet: it is C14's subject
	w.gov.signedBlocksWindow, w.gov.minSignedBlocks = 10, 0
	var before [3]*uint256.Int
	for i := 0; i < 3; i++ {
		before[i] = w.cumulated(i)
	}
	bctx := zzBlockCtx(h, w.gov, w.accts, w.sc, votes, nil)
	_, xerr := w.sc.BeginBlock(bctx)
	zzverif.Assert(xerr == nil, "W1 BeginBlock succeeds")
	var want [3]*uint256.Int
	for i := 0; i < 3; i++ {
		want[i] = new(uint256.Int)
	}
	for _, r := range basis {
		if signed[r.to] && match[r.to] && total(r.to) > 0 {
			rw := new(uint256.Int).Mul(uint256.NewInt(uint64(r.power)), w.gov.RewardPerPower())
			want[r.from].Add(want[r.from], rw)
		}
	}
	for i := 0; i < 3; i++ {
		got := new(uint256.Int).Sub(w.cumulated(i), before[i])
		zzverif.Assert(got.Eq(want[i]), "W1/W2 reward = sum over the owner's stakes (at the power-basis height) bonded to signing validators of power x rewardPerPower")
	}
	if h == 2 {
		// the next block, after the governance parameter rewardPerPower changed (same
		// parameter version): rewards follow the parameter in force, not an earlier one
		_, _, _ = w.sc.Commit()
		w.gov.rewardPerPower = zzverif.NondetU256Below("gov.rewardPerPower.2", new(uint256.Int).Lsh(uint256.NewInt(1), 64))
		for i := 0; i < 3; i++ {
			before[i] = w.cumulated(i)
		}
		_, xerr = w.sc.BeginBlock(zzBlockCtx(h+1, w.gov, w.accts, w.sc, votes, nil))
		zzverif.Assert(xerr == nil, "W1 second BeginBlock succeeds")
		for i := 0; i < 3; i++ {
			want[i] = new(uint256.Int)
		}
		for _, r := range basis {
			if signed[r.to] && match[r.to] && total(r.to) > 0 {
				want[r.from].Add(want[r.from], new(uint256.Int).Mul(uint256.NewInt(uint64(r.power)), w.gov.RewardPerPower()))
			}
		}
		for i := 0; i < 3; i++ {
			got := new(uint256.Int).Sub(w.cumulated(i), before[i])
			zzverif.Assert(got.Eq(want[i]), "W1 after a parameter change the reward is power x the rewardPerPower now in force")
		}
		zzverif.Reach("W12 second block")
	}
	zzverif.Event("W12", h, signed[0], signed[1], match[0], match[1])
	zzverif.Reach("W12 end")
}

// ZZ_C13_W34: Reward.Issue / Withdraw algebra and the withdraw transaction.
func ZZ_C13_W34() {
	w := &zzWorld{gov: zzNewGov(), accts: zzNewAccts(2)}
	w.sc = zzNewCtrler(zzverif.TempDir(), w.gov)
	w.height = zzverif.NondetI64In("height", 5, 1<<40)
	bound := new(uint256.Int).Lsh(uint256.NewInt(1), 120)
	hasReward := zzverif.Choose("hasReward", 2) == 1
	cum0 := uint256.NewInt(0)
	if hasReward {
		rw := NewReward(zzAddr(0))
		iss := zzverif.NondetU256Below("issued", bound)
		rh := zzverif.NondetI64In("reward.height", 1, 1<<40)
		zzverif.Assume(rh <= w.height)
		_ = rw.Issue(iss, rh)
		zzverif.Assert(rw.GetCumulated().Eq(iss), "W3 Issue adds exactly the issued amount")
		iss2 := zzverif.NondetU256Below("issued2", bound)
		_ = rw.Issue(iss2, rh)
		cum0 = new(uint256.Int).Add(iss, iss2)
		zzverif.Assert(rw.GetCumulated().Eq(cum0), "W3 second Issue at the same height accumulates")
		_ = w.sc.rewardLedger.SetFinality(rw)
		if zzverif.Choose("committed", 2) == 1 {
			_, _, _ = w.sc.Commit()
		}
	}
	req := zzverif.NondetU256("reqAmt") // the full 256-bit range
	amt := uint256.NewInt(0)
	if zzverif.Choose("nonzeroAmount", 2) == 1 {
		amt = zzverif.NondetU256Below("amount", bound)
		zzverif.Assume(!amt.IsZero())
	}
	bal0 := w.accts.FindAccount(zzAddr(0), true).GetBalance()
	ctx := w.txctx(0, 0, ctrlertypes.TRX_WITHDRAW, amt, &ctrlertypes.TrxPayloadWithdraw{ReqAmt: req}, zzHash(8))
	ok := w.exec(ctx)
	shouldOK := hasReward && amt.IsZero() && !req.Gt(cum0)
	zzverif.Assert(ok == shouldOK, "W4 withdraw accepted iff Amount=0 and ReqAmt <= withdrawable reward")
	bal1 := w.accts.FindAccount(zzAddr(0), true).GetBalance()
	if ok {
		zzverif.Assert(new(uint256.Int).Sub(bal1, bal0).Eq(req), "W4 balance credited by exactly the requested amount")
		zzverif.Assert(w.cumulated(0).Eq(new(uint256.Int).Sub(cum0, req)), "W4 withdrawable = issued - withdrawn")
		// a second withdrawal of the same amount in the same block composes
		ctx2 := w.txctx(0, 0, ctrlertypes.TRX_WITHDRAW, uint256.NewInt(0), &ctrlertypes.TrxPayloadWithdraw{ReqAmt: req}, zzHash(9))
		ok2 := w.exec(ctx2)
		left := new(uint256.Int).Sub(cum0, req)
		zzverif.Assert(ok2 == !req.Gt(left), "W4 second withdrawal accepted iff still covered")
		if ok2 {
			zzverif.Assert(w.cumulated(0).Eq(new(uint256.Int).Sub(left, req)), "W4 withdrawable after two withdrawals")
		}
		// the committed record agrees (what a restarted node and the reward query see)
		want := w.cumulated(0)
		_, _, _ = w.sc.Commit()
		cr, _ := w.sc.rewardLedger.Read(ledger.ToLedgerKey(zzAddr(0)))
		zzverif.Assert(cr != nil, "W4 reward record is committed")
		if cr != nil {
			zzverif.Assert(cr.GetCumulated().Eq(want), "W4 committed withdrawable reward = issued - withdrawn")
		}
		zzverif.Reach("W34 accepted")
	} else {
		zzverif.Assert(bal1.Eq(bal0), "W4 rejected withdrawal leaves the balance")
		zzverif.Assert(w.cumulated(0).Eq(cum0), "W4 rejected withdrawal leaves the reward")
		zzverif.Reach("W34 rejected")
	}
}
