package stake

// C10: validator-set updates mirror the staking ledger.

import (
	"bytes"
	"strconv"

	"github.com/rigochain/rigo-go/ledger"
	"github.com/rigochain/rigo-go/zzverif"
	abcitypes "github.com/tendermint/tendermint/abci/types"
)

// pool of 4 addresses in ascending order
func zzPoolAddr(i int) []byte {
	a := make([]byte, 20)
	a[0] = byte(0x10 * (i + 1))
	return a
}
func zzPoolPub(i int) []byte {
	p := make([]byte, 33)
	p[0], p[1] = 0x03, byte(i+1)
	return p
}

func zzPubIndex(u abcitypes.ValidatorUpdate) int {
	pk := u.PubKey.GetSecp256K1()
	for i := 0; i < 4; i++ {
		if bytes.Equal(pk, zzPoolPub(i)) {
			return i
		}
	}
	return -1
}

// zzFold applies updates to a validator set (index -> power, -1 = absent) and
// checks Tendermint's well-formedness rules for each update.
func zzFold(set *[4]int64, in *[4]bool, ups []abcitypes.ValidatorUpdate, tag string) {
	var seen [4]bool
	for _, u := range ups {
		i := zzPubIndex(u)
		zzverif.Assert(i >= 0, tag+": update names a known public key")
		if i < 0 {
			continue
		}
		zzverif.Assert(!seen[i], tag+": no validator appears twice in one update list")
		seen[i] = true
		zzverif.Assert(u.Power >= 0, tag+": no negative power")
		if u.Power == 0 {
			zzverif.Assert(in[i], tag+": only members of the current set are removed")
			in[i] = false
		} else {
			in[i] = true
			set[i] = u.Power
		}
	}
}

// ZZ_C10_U1: validatorUpdates(existing, newers) for every pair of subsets of a
// 4-address pool (both address-sorted, duplicate free), symbolic powers.
func ZZ_C10_U1() {
	var existing, newers DelegateeArray
	var set [4]int64
	var in [4]bool
	var want [4]int64
	var wantIn [4]bool
	for i := 0; i < 4; i++ {
		if zzverif.Choose("inExisting", 2) == 1 {
			p := zzPower("oldpower")
			existing = append(existing, &Delegatee{Addr: zzPoolAddr(i), PubKey: zzPoolPub(i), TotalPower: p})
			set[i], in[i] = p, true
		}
	}
	for i := 0; i < 4; i++ {
		if zzverif.Choose("inNewers", 2) == 1 {
			p := zzPower("newpower")
			newers = append(newers, &Delegatee{Addr: zzPoolAddr(i), PubKey: zzPoolPub(i), TotalPower: p})
			want[i], wantIn[i] = p, true
		}
	}
	ups := validatorUpdates(existing, newers)
	zzFold(&set, &in, ups, "U1")
	for i := 0; i < 4; i++ {
		zzverif.Assert(in[i] == wantIn[i], "U1: membership after applying the updates equals the new set")
		if in[i] && wantIn[i] {
			zzverif.Assert(set[i] == want[i], "U1: voting power after applying the updates equals total bonded power")
		}
	}
	zzverif.Event("U1", len(existing), len(newers), len(ups))
	zzverif.Reach("U1 end")
}

// ZZ_C10_U23: BeginBlock eligibility + updateValidators.  <=3 committed
// delegatees with symbolic self/total power, one more only in the overlay;
// symbolic MinValidatorStake and MaxValidatorCnt in {1,2,3}; two consecutive
// blocks with a committed change in between.
func ZZ_C10_U23() {
	w := &zzWorld{gov: zzNewGov(), accts: zzNewAccts(1)}
	w.sc = zzNewCtrler(zzverif.TempDir(), w.gov)
	w.gov.maxValidatorCnt = int64(1 + zzverif.Choose("maxVals", 3))
	minPower := w.gov.minValidatorStake // = gov.minValidatorPower * 10^18
	_ = minPower
	n := 1 + zzverif.Choose("ndeleg", 3)
	type dl struct{ self, total int64 }
	mk := func(i int, self, deleg int64) *Delegatee {
		d := NewDelegatee(zzPoolAddr(i), zzPoolPub(i))
		_ = d.AddStake(NewStakeWithPower(zzPoolAddr(i), zzPoolAddr(i), self, 1, zzHash(2*i)))
		if deleg > 0 {
			_ = d.AddStake(NewStakeWithPower(zzAddr(2), zzPoolAddr(i), deleg, 1, zzHash(2*i+1)))
		}
		return d
	}
	var ds []dl
	for i := 0; i < n; i++ {
		self := zzPower("self")
		deleg := int64(0)
		if zzverif.Choose("hasDeleg", 2) == 1 {
			deleg = zzPower("deleg")
		}
		_ = w.sc.delegateeLedger.SetFinality(mk(i, self, deleg))
		ds = append(ds, dl{self, self + deleg})
	}
	_, _, _ = w.sc.Commit() // version 1
	mvp := ctrlerMinPower(w)

	// expected validator set for a committed state
	expect := func(ds []dl) ([4]int64, [4]bool) {
		var pw [4]int64
		var in [4]bool
		// rank: eligible delegatees by (TotalPower desc, #stakes desc, address desc)
		taken := 0
		var used [4]bool
		for taken < int(w.gov.maxValidatorCnt) {
			best := -1
			for i := range ds {
				if used[i] || ds[i].self < mvp {
					continue
				}
				if best < 0 {
					best = i
					continue
				}
				bi, bb := ds[i], ds[best]
				si, sb := 1, 1
				if bi.total > bi.self {
					si = 2
				}
				if bb.total > bb.self {
					sb = 2
				}
				if bi.total > bb.total || (bi.total == bb.total && (si > sb || (si == sb && i > best))) {
					best = i
				}
			}
			if best < 0 {
				break
			}
			used[best] = true
			pw[best], in[best] = ds[best].total, true
			taken++
		}
		return pw, in
	}

	var set [4]int64
	var in [4]bool
	// block 2: reflects version 1; an overlay-only delegatee must not count
	_ = w.sc.delegateeLedger.SetFinality(mk(3, zzMaxPower, 0))
	b2 := zzBlockCtx(2, w.gov, w.accts, w.sc, nil, nil)
	_, _ = w.sc.BeginBlock(b2)
	_, _ = w.sc.EndBlock(b2)
	zzFold(&set, &in, b2.ValUpdates, "U2 block2")
	wp, wi := expect(ds)
	for i := 0; i < 4; i++ {
		zzverif.Assert(in[i] == wi[i], "U2/U3 block 2: validator set = eligible delegatees of the previous commit, ranked, truncated")
		if in[i] && wi[i] {
			zzverif.Assert(set[i] == wp[i], "U2 block 2: voting power = total bonded power")
		}
	}
	// C11: the power queries at the committed height equal the corresponding sums
	wantVoting, wantTotal := int64(0), int64(0)
	for i := range ds {
		wantTotal += ds[i].total
		if wi[i] {
			wantVoting += wp[i]
		}
	}
	for _, q := range []struct {
		path string
		want int64
	}{{"stakes/voting_power", wantVoting}, {"stakes/total_power", wantTotal}} {
		bz, xerr := w.sc.Query(abcitypes.RequestQuery{Path: q.path, Height: 1})
		zzverif.Assert(xerr == nil, "U2 power query succeeds")
		if xerr == nil {
			got, err := strconv.ParseInt(string(bz), 10, 64)
			zzverif.Assert(err == nil && got == q.want, "U2 "+q.path+" query = sum over the committed delegatees (voting: the ranked, truncated validator set)")
		}
	}
	// change committed by block 2: delegatee 0 gets / loses power, overlay one is dropped again
	_, _ = w.sc.delegateeLedger.DelFinality(ledger.ToLedgerKey(zzPoolAddr(3)))
	self0 := zzPower("self0.new")
	deleg0 := int64(0)
	if zzverif.Choose("hasDeleg0.new", 2) == 1 {
		deleg0 = zzPower("deleg0.new")
	}
	_ = w.sc.delegateeLedger.SetFinality(mk(0, self0, deleg0))
	ds[0] = dl{self0, self0 + deleg0}
	_, _, _ = w.sc.Commit() // version 2
	b3 := zzBlockCtx(3, w.gov, w.accts, w.sc, nil, nil)
	_, _ = w.sc.BeginBlock(b3)
	_, _ = w.sc.EndBlock(b3)
	zzFold(&set, &in, b3.ValUpdates, "U5 block3")
	wp, wi = expect(ds)
	for i := 0; i < 4; i++ {
		zzverif.Assert(in[i] == wi[i], "U5 block 3: cumulative application of updates tracks the staking ledger")
		if in[i] && wi[i] {
			zzverif.Assert(set[i] == wp[i], "U5 block 3: voting power = total bonded power")
		}
	}
	// an unchanged state yields no updates
	_, _, _ = w.sc.Commit()
	b4 := zzBlockCtx(4, w.gov, w.accts, w.sc, nil, nil)
	_, _ = w.sc.BeginBlock(b4)
	_, _ = w.sc.EndBlock(b4)
	zzverif.Assert(len(b4.ValUpdates) == 0, "U5 block 4: unchanged ledger gives no updates")
	zzverif.Event("U23", n, len(b2.ValUpdates), len(b3.ValUpdates))
	zzverif.Reach("U23 end")
}

func ctrlerMinPower(w *zzWorld) int64 {
	// gov.minValidatorStake was built as power*10^18; recover the power
	q := w.gov.minValidatorStake.Clone()
	q.Div(q, zzTenTo18())
	return int64(q.Uint64())
}
