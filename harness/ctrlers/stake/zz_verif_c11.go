package stake

// C11: stake bookkeeping.  One controller operation from an arbitrary state
// that satisfies the representation invariant must re-establish it.

import (
	"github.com/holiman/uint256"
	ctrlertypes "github.com/rigochain/rigo-go/ctrlers/types"
	"github.com/rigochain/rigo-go/ledger"
	"github.com/rigochain/rigo-go/types/bytes"
	"github.com/rigochain/rigo-go/zzverif"
	abcitypes "github.com/tendermint/tendermint/abci/types"
)

// zzStakeRec is the harness's own record of a stake of the universe.
type zzStakeRec struct {
	hash     []byte
	from, to int
	power    int64
	live     bool // expected to exist (bonded or frozen)
}

type zzWorld struct {
	sc     *StakeCtrler
	gov    *zzGov
	accts  *zzAccts
	stakes []*zzStakeRec
	height int64
	checkOnly bool // transactions are run in CheckTx mode (Exec == false)
}

// zzSeed builds a committed state: delegatees A0 and A1 (each optional), each
// with a self stake and optionally one stake delegated by A2.
func zzSeed(ndeleg int, withFrozen bool) *zzWorld {
	w := &zzWorld{gov: zzNewGov(), accts: zzNewAccts(3)}
	w.sc = zzNewCtrler(zzverif.TempDir(), w.gov)
	for i := 0; i < ndeleg; i++ {
		if zzverif.Choose("present", 2) == 0 {
			continue
		}
		d := NewDelegatee(zzAddr(i), zzPub(i))
		p := zzPower("selfpower")
		r := &zzStakeRec{hash: zzHash(2 * i), from: i, to: i, power: p, live: true}
		_ = d.AddStake(NewStakeWithPower(zzAddr(i), zzAddr(i), p, 1, r.hash))
		w.stakes = append(w.stakes, r)
		if zzverif.Choose("delegated", 2) == 1 {
			p2 := zzPower("delegpower")
			r2 := &zzStakeRec{hash: zzHash(2*i + 1), from: 2, to: i, power: p2, live: true}
			_ = d.AddStake(NewStakeWithPower(zzAddr(2), zzAddr(i), p2, 1, r2.hash))
			w.stakes = append(w.stakes, r2)
		}
		if zzverif.Thorough() && zzverif.Choose("delegated2", 2) == 1 {
			// thorough tier: a third stake (delegated by the other validator's owner)
			p3 := zzPower("delegpower2")
			r3 := &zzStakeRec{hash: zzHash(20 + i), from: 1 - i, to: i, power: p3, live: true}
			_ = d.AddStake(NewStakeWithPower(zzAddr(1-i), zzAddr(i), p3, 1, r3.hash))
			w.stakes = append(w.stakes, r3)
		}
		_ = w.sc.delegateeLedger.SetFinality(d)
	}
	if withFrozen && zzverif.Choose("frozen", 2) == 1 {
		p := zzPower("frozenpower")
		s := NewStakeWithPower(zzAddr(2), zzAddr(0), p, 1, zzHash(6))
		s.RefundHeight = zzverif.NondetI64In("frozen.refundHeight", 0, 1<<40)
		_ = w.sc.frozenLedger.SetFinality(s)
		w.stakes = append(w.stakes, &zzStakeRec{hash: zzHash(6), from: 2, to: 0, power: p, live: true})
	}
	if _, _, xerr := w.sc.Commit(); xerr != nil {
		panic(xerr)
	}
	w.height = 2
	return w
}

func (w *zzWorld) txctx(from, to int, typ int32, amt *uint256.Int, payload ctrlertypes.ITrxPayload, txhash []byte) *ctrlertypes.TrxContext {
	tx := &ctrlertypes.Trx{Version: 1, Time: 1, Nonce: 0, From: zzAddr(from), To: zzAddr(to), Amount: amt,
		Gas: 10, GasPrice: w.gov.GasPrice(), Type: typ, Payload: payload}
	exec := !w.checkOnly
	return &ctrlertypes.TrxContext{Exec: exec, Tx: tx, TxHash: txhash, Height: w.height,
		SenderPubKey: zzPub(from), Sender: w.accts.FindAccount(zzAddr(from), exec), Receiver: w.accts.FindOrNewAccount(zzAddr(to), exec),
		GovHandler: w.gov, AcctHandler: w.accts, StakeHandler: w.sc}
}

// checkInvariant asserts C11's invariant on the exec (consensus) view, or on
// the committed view when committed is true.
func (w *zzWorld) checkInvariant(tag string, committed bool) {
	getD := func(i int) *Delegatee {
		if committed {
			d, _ := w.sc.delegateeLedger.Read(ledger.ToLedgerKey(zzAddr(i)))
			return d
		}
		d, _ := w.sc.delegateeLedger.GetFinality(ledger.ToLedgerKey(zzAddr(i)))
		return d
	}
	getF := func(h []byte) *Stake {
		if committed {
			s, _ := w.sc.frozenLedger.Read(ledger.ToLedgerKey(h))
			return s
		}
		s, _ := w.sc.frozenLedger.GetFinality(ledger.ToLedgerKey(h))
		return s
	}
	for i := 0; i < 2; i++ {
		d := getD(i)
		if d == nil {
			continue
		}
		sum, self := int64(0), int64(0)
		for _, s := range d.Stakes {
			sum += s.Power
			if bytes.Compare(s.From, d.Addr) == 0 {
				self += s.Power
			}
			zzverif.Assert(bytes.Compare(s.To, d.Addr) == 0, tag+": bonded stake's target is its delegatee")
		}
		zzverif.Assert(d.TotalPower == sum, tag+": TotalPower == sum of bonded stakes")
		zzverif.Assert(d.SelfPower == self, tag+": SelfPower == sum of the owner's own stakes")
	}
	for _, r := range w.stakes {
		places := 0
		for i := 0; i < 2; i++ {
			if d := getD(i); d != nil {
				for _, s := range d.Stakes {
					if bytes.Compare(s.TxHash, r.hash) == 0 {
						places++
						zzverif.Assert(i == r.to, tag+": stake is bonded under its own target")
						zzverif.Assert(bytes.Compare(s.From, zzAddr(r.from)) == 0 && bytes.Compare(s.To, zzAddr(r.to)) == 0, tag+": owner/target unchanged")
						zzverif.Assert(s.Power == r.power, tag+": power unchanged (no slash)")
					}
				}
			}
		}
		if s := getF(r.hash); s != nil {
			places++
			zzverif.Assert(bytes.Compare(s.From, zzAddr(r.from)) == 0 && bytes.Compare(s.To, zzAddr(r.to)) == 0, tag+": frozen owner/target unchanged")
			zzverif.Assert(s.Power == r.power, tag+": frozen power unchanged")
		}
		if r.live {
			zzverif.Assert(places == 1, tag+": live stake recorded in exactly one place")
		} else {
			zzverif.Assert(places == 0, tag+": dead stake recorded nowhere")
		}
	}
}

// exec runs ValidateTrx+ExecuteTrx like the transaction executor does.
func (w *zzWorld) exec(ctx *ctrlertypes.TrxContext) bool {
	if xerr := w.sc.ValidateTrx(ctx); xerr != nil {
		return false
	}
	return w.sc.ExecuteTrx(ctx) == nil
}

// small = true restricts the transaction to senders {A0,A2}, target A0 and
// whole-power amounts (used by the multi-step harnesses to bound the fork count)
func (w *zzWorld) doStaking(txhash []byte, small bool) {
	var from, to int
	if small {
		from, to = 2*zzverif.Choose("tx.from", 2), 0
	} else {
		from, to = zzverif.Choose("tx.from", 3), zzverif.Choose("tx.to", 2)
	}
	p := zzPower("tx.power")
	amt := ctrlertypes.PowerToAmount(p)
	if !small && zzverif.Choose("tx.exact", 2) == 1 {
		// not a whole multiple of 10^18: must be rejected
		extra := zzverif.NondetU64In("tx.extra", 1, 999999999999999999)
		amt = new(uint256.Int).Add(amt, uint256.NewInt(extra))
		ok := w.exec(w.txctx(from, to, ctrlertypes.TRX_STAKING, amt, nil, txhash))
		zzverif.Assert(!ok, "staking: fractional amount rejected")
		return
	}
	if w.exec(w.txctx(from, to, ctrlertypes.TRX_STAKING, amt, nil, txhash)) {
		// a transaction that is only checked creates nothing; the record stays "dead"
		w.stakes = append(w.stakes, &zzStakeRec{hash: txhash, from: from, to: to, power: p, live: !w.checkOnly})
		zzverif.Reach("staking ok")
	} else {
		zzverif.Reach("staking rejected")
	}
}

func (w *zzWorld) doUnstaking(txhash []byte, small bool) {
	var from, to int
	var target []byte
	if small {
		from, to = 2*zzverif.Choose("tx.from", 2), 0
		// any stake of the universe so far (seeded or created in this block)
		target = w.stakes[zzverif.Choose("tx.stake", len(w.stakes))].hash
	} else {
		from, to = zzverif.Choose("tx.from", 3), zzverif.Choose("tx.to", 2)
		target = zzHash(zzverif.Choose("tx.stake", 5)) // H0..H3 seeded, H4 unknown
	}
	ctx := w.txctx(from, to, ctrlertypes.TRX_UNSTAKING, uint256.NewInt(0), &ctrlertypes.TrxPayloadUnstaking{TxHash: target}, txhash)
	if w.exec(ctx) {
		zzverif.Reach("unstaking ok")
	} else {
		zzverif.Reach("unstaking rejected")
	}
}

func zzEvidence(i int) abcitypes.Evidence {
	return abcitypes.Evidence{Type: abcitypes.EvidenceType_DUPLICATE_VOTE, Validator: abcitypes.Validator{Address: zzAddr(i), Power: 1}, Height: 1}
}

// ZZ_C11_B1: one staking / unstaking transaction from an arbitrary state.
func ZZ_C11_B1() {
	w := zzSeed(2, true)
	w.checkInvariant("pre", false)
	switch zzverif.Choose("op", 2) {
	case 0:
		w.doStaking(zzHash(8), false)
	case 1:
		w.doUnstaking(zzHash(8), false)
	}
	w.checkInvariant("post", false)
	if _, _, xerr := w.sc.Commit(); xerr != nil {
		zzverif.Assert(false, "Commit failed")
	}
	w.checkInvariant("committed", true)
	zzverif.Reach("B1 end")
}

// ZZ_C11_B3: two or three operations on the same state inside one block
// (delete / re-create / modify of a delegatee).
func ZZ_C11_B3() {
	w := zzSeed(1, false)
	for step := 0; step < 3; step++ {
		switch zzverif.Choose("op", 2) {
		case 0:
			w.doStaking(zzHash(8+step), true)
		case 1:
			if len(w.stakes) == 0 {
				return
			}
			w.doUnstaking(zzHash(8+step), true)
		}
		w.checkInvariant("step", false)
	}
	if _, _, xerr := w.sc.Commit(); xerr != nil {
		zzverif.Assert(false, "Commit failed")
	}
	w.checkInvariant("committed", true)
	zzverif.Reach("B3 end")
}

// zzBook is what the consensus side of the bookkeeping looks like.
type zzBook struct {
	total, self [2]int64
	n           [2]int
	present     [2]bool
	frozen      []int64
}

func (w *zzWorld) book(committed bool) *zzBook {
	b := &zzBook{}
	for i := 0; i < 2; i++ {
		var d *Delegatee
		if committed {
			d, _ = w.sc.delegateeLedger.Read(ledger.ToLedgerKey(zzAddr(i)))
		} else {
			d, _ = w.sc.delegateeLedger.GetFinality(ledger.ToLedgerKey(zzAddr(i)))
		}
		if d != nil {
			b.present[i], b.total[i], b.self[i], b.n[i] = true, d.TotalPower, d.SelfPower, len(d.Stakes)
		}
	}
	for k := 0; k < 12; k++ {
		var f *Stake
		if committed {
			f, _ = w.sc.frozenLedger.Read(ledger.ToLedgerKey(zzHash(k)))
		} else {
			f, _ = w.sc.frozenLedger.GetFinality(ledger.ToLedgerKey(zzHash(k)))
		}
		if f != nil {
			b.frozen = append(b.frozen, f.Power)
		} else {
			b.frozen = append(b.frozen, -1)
		}
	}
	return b
}

func zzSameBook(a, b *zzBook, tag string) {
	for i := 0; i < 2; i++ {
		zzverif.Assert(a.present[i] == b.present[i] && a.total[i] == b.total[i] && a.self[i] == b.self[i] && a.n[i] == b.n[i], tag+": delegatee record unchanged")
	}
	for k := range a.frozen {
		zzverif.Assert(a.frozen[k] == b.frozen[k], tag+": unbonding ledger unchanged")
	}
}

// ZZ_C11_B4: a staking / unstaking transaction that is only *checked* (mempool,
// Exec == false) never reaches the consensus bookkeeping: neither the in-block
// view nor what the next Commit persists.
func ZZ_C11_B4() {
	w := zzSeed(2, true)
	b0 := w.book(false)
	w.checkOnly = true
	switch zzverif.Choose("op", 2) {
	case 0:
		w.doStaking(zzHash(8), false)
	case 1:
		w.doUnstaking(zzHash(8), false)
	}
	w.checkOnly = false
	zzSameBook(b0, w.book(false), "B4 after a checked-only tx")
	w.checkInvariant("B4 after a checked-only tx", false)
	if _, _, xerr := w.sc.Commit(); xerr != nil {
		zzverif.Assert(false, "Commit failed")
	}
	zzSameBook(b0, w.book(true), "B4 committed after a checked-only tx")
	w.checkInvariant("B4 committed", true)
	zzverif.Reach("B4 end")
}
