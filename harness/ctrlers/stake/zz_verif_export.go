package stake

// Exported read-only views for the application-level harnesses (package node
// cannot reach the controller's unexported ledgers).

import (
	"github.com/holiman/uint256"
	"github.com/rigochain/rigo-go/ledger"
	"github.com/rigochain/rigo-go/types"
)

// ZZDelegatee returns the consensus-view (exec) delegatee or nil.
func ZZDelegatee(sc *StakeCtrler, addr types.Address) *Delegatee {
	d, _ := sc.delegateeLedger.GetFinality(ledger.ToLedgerKey(addr))
	return d
}

// ZZFrozen returns the consensus-view unbonding stake stored under key or nil.
func ZZFrozen(sc *StakeCtrler, key []byte) *Stake {
	s, _ := sc.frozenLedger.GetFinality(ledger.ToLedgerKey(key))
	return s
}

// ZZCumulated returns the withdrawable reward of addr (0 when none).
func ZZCumulated(sc *StakeCtrler, addr types.Address) *uint256.Int {
	r, _ := sc.rewardLedger.GetFinality(ledger.ToLedgerKey(addr))
	if r == nil {
		return uint256.NewInt(0)
	}
	return r.GetCumulated()
}

func ZZLastValidatorsLen(sc *StakeCtrler) int { return len(sc.lastValidators) }

