package stake

// C12: unbonding – owner only, full waiting period, refunded exactly once.

import (
	"github.com/holiman/uint256"
	ctrlertypes "github.com/rigochain/rigo-go/ctrlers/types"
	"github.com/rigochain/rigo-go/ledger"
	"github.com/rigochain/rigo-go/types/bytes"
	"github.com/rigochain/rigo-go/zzverif"
)

func (w *zzWorld) rec(h []byte) *zzStakeRec {
	for _, r := range w.stakes {
		if bytes.Compare(r.hash, h) == 0 {
			return r
		}
	}
	return nil
}

func (w *zzWorld) bonded(i int, h []byte) *Stake {
	d, _ := w.sc.delegateeLedger.GetFinality(ledger.ToLedgerKey(zzAddr(i)))
	if d == nil {
		return nil
	}
	_, s := d.FindStake(h)
	return s
}

// ZZ_C12_O12: one unstaking transaction with an arbitrary sender / target /
// stake reference from an arbitrary state.
//   O1: accepted  =>  the sender is the stake's owner and the stake was bonded under `to`
//   O2: afterwards the stake (and, when the validator's own power drops to 0,
//       every other stake of that validator) carries no voting power and is
//       frozen with RefundHeight = height + LazyRewardBlocks in force now.
func ZZ_C12_O12() {
	w := zzSeed(2, false)
	from := zzverif.Choose("tx.from", 3)
	to := zzverif.Choose("tx.to", 2)
	which := zzverif.Choose("tx.stake", 5)
	target := zzHash(which)
	w.height = zzverif.NondetI64In("height", 2, 1<<40)
	// snapshot of the delegatee before
	var before []*zzStakeRec
	selfBefore := int64(0)
	for _, r := range w.stakes {
		if r.to == to {
			before = append(before, r)
			if r.from == to {
				selfBefore += r.power
			}
		}
	}
	ctx := w.txctx(from, to, ctrlertypes.TRX_UNSTAKING, uint256.NewInt(0), &ctrlertypes.TrxPayloadUnstaking{TxHash: target}, zzHash(8))
	ok := w.exec(ctx)
	r := w.rec(target)
	if !ok {
		// rejected: nothing moved
		for _, b := range before {
			zzverif.Assert(w.bonded(to, b.hash) != nil, "O1 rejected unstaking leaves stakes bonded")
		}
		if r != nil && r.to == to && r.from == from {
			zzverif.Assert(false, "O1 the owner's unstaking of an existing stake is accepted (limiter off)")
		}
		zzverif.Reach("O12 rejected")
		return
	}
	zzverif.Assert(r != nil && r.to == to, "O1 accepted unstaking names a stake bonded under the target")
	if r == nil {
		return
	}
	zzverif.Assert(r.from == from, "O1 accepted unstaking is signed by the stake's owner")
	want := w.height + w.gov.LazyRewardBlocks()
	cascade := r.from == to && selfBefore-r.power == 0
	for _, b := range before {
		released := bytes.Compare(b.hash, target) == 0 || cascade
		fs, _ := w.sc.frozenLedger.GetFinality(ledger.ToLedgerKey(b.hash))
		if released {
			zzverif.Assert(w.bonded(to, b.hash) == nil, "O2 released stake is bonded nowhere")
			zzverif.Assert(fs != nil, "O2 released stake is in the unbonding ledger")
			if fs != nil {
				zzverif.Assert(fs.RefundHeight == want, "O2 RefundHeight = height + unbonding period in force")
				zzverif.Assert(fs.Power == b.power && bytes.Compare(fs.From, zzAddr(b.from)) == 0, "O2 frozen stake keeps owner and power")
			}
		} else {
			zzverif.Assert(w.bonded(to, b.hash) != nil && fs == nil, "O2 other stakes stay bonded")
		}
	}
	// voting power of the validator excludes everything released
	wantTotal := int64(0)
	for _, b := range before {
		if !(bytes.Compare(b.hash, target) == 0 || cascade) {
			wantTotal += b.power
		}
	}
	zzverif.Assert(w.sc.TotalPowerOf(zzAddr(to)) == wantTotal, "O2 released stakes carry no voting power")
	zzverif.Event("O12", from, to, which, cascade)
	zzverif.Reach("O12 accepted")
}

// ZZ_C12_O3: maturity.  <=3 unbonding stakes with symbolic refund heights and
// powers; EndBlock at a symbolic height refunds exactly the matured ones,
// in full, to their owners, once.
func ZZ_C12_O3() {
	w := &zzWorld{gov: zzNewGov(), accts: zzNewAccts(3)}
	o3dir := zzverif.TempDir()
	w.sc = zzNewCtrler(o3dir, w.gov)
	n := 1 + zzverif.Choose("nfrozen", 3)
	type fz struct {
		owner  int
		power  int64
		refund int64
	}
	var fzs []fz
	for i := 0; i < n; i++ {
		f := fz{owner: zzverif.Choose("owner", 3), power: zzPower("power"), refund: zzverif.NondetI64In("refund", 0, 1<<40)}
		s := NewStakeWithPower(zzAddr(f.owner), zzAddr(0), f.power, 1, zzHash(i))
		s.RefundHeight = f.refund
		_ = w.sc.frozenLedger.SetFinality(s)
		fzs = append(fzs, f)
	}
	if _, _, xerr := w.sc.Commit(); xerr != nil {
		panic(xerr)
	}
	if zzverif.Choose("restart.during.unbonding", 2) == 1 {
		// the node restarts while the stakes are unbonding: a new controller on the same data
		// (a new process image on a copy of the data directory, as in the node-level harnesses)
		w.sc = zzNewCtrler(zzverif.CopyDir(o3dir), w.gov)
		zzverif.Reach("O3 restarted")
	}
	h := zzverif.NondetI64In("height", 2, 1<<40)
	var bal0 [3]*uint256.Int
	for i := 0; i < 3; i++ {
		bal0[i] = w.accts.FindAccount(zzAddr(i), true).GetBalance()
	}
	// the unbonding period changed by governance after release has no influence
	w.gov.lazyRewardBlocks = zzverif.NondetI64In("gov.lazyRewardBlocks.later", 0, 1<<40)

	round := func(height int64, tag string, already []bool) []bool {
		bctx := zzBlockCtx(height, w.gov, w.accts, w.sc, nil, nil)
		_, _ = w.sc.BeginBlock(bctx)
		_, xerr := w.sc.EndBlock(bctx)
		zzverif.Assert(xerr == nil, tag+" EndBlock succeeds")
		if _, _, xerr := w.sc.Commit(); xerr != nil {
			zzverif.Assert(false, tag+" Commit succeeds")
		}
		done := make([]bool, n)
		var want [3]*uint256.Int
		for i := 0; i < 3; i++ {
			want[i] = new(uint256.Int)
		}
		for i, f := range fzs {
			matured := f.refund <= height
			done[i] = matured
			fs, _ := w.sc.frozenLedger.Read(ledger.ToLedgerKey(zzHash(i)))
			if matured {
				zzverif.Assert(fs == nil, tag+" matured stake left the unbonding ledger")
			} else {
				zzverif.Assert(fs != nil, tag+" immature stake stays locked")
			}
			if matured || (already != nil && already[i]) {
				want[f.owner].Add(want[f.owner], ctrlertypes.PowerToAmount(f.power))
			}
		}
		for i := 0; i < 3; i++ {
			got := new(uint256.Int).Sub(w.accts.FindAccount(zzAddr(i), true).GetBalance(), bal0[i])
			zzverif.Assert(got.Eq(want[i]), tag+" every owner is credited exactly power x 10^18 of its matured stakes, nobody else")
		}
		return done
	}
	d1 := round(h, "first", nil)
	_ = round(h+1, "second", d1)
	zzverif.Event("O3", n)
	zzverif.Reach("O3 end")
}

// ZZ_C12_O4: two genesis validators (their initial stakes both carry the
// all-zero TxHash) unbond one after the other; both must be refunded.
func ZZ_C12_O4() {
	w := &zzWorld{gov: zzNewGov(), accts: zzNewAccts(3)}
	w.sc = zzNewCtrler(zzverif.TempDir(), w.gov)
	p0, p1 := zzPower("power0"), zzPower("power1")
	zero := make([]byte, 32)
	init := []*InitStake{
		{PubKeys: zzPub(0), Stakes: []*Stake{NewStakeWithPower(zzAddr(0), zzAddr(0), p0, 1, zero)}},
		{PubKeys: zzPub(1), Stakes: []*Stake{NewStakeWithPower(zzAddr(1), zzAddr(1), p1, 1, zero)}},
	}
	if xerr := w.sc.InitLedger(init); xerr != nil {
		panic(xerr)
	}
	if _, _, xerr := w.sc.Commit(); xerr != nil {
		panic(xerr)
	}
	zzverif.Known("C12-K1", true) // class: two live stakes with the same TxHash (genesis stakes)
	w.height = 2
	w.gov.lazyRewardBlocks = 0
	var bal0 [2]*uint256.Int
	for i := 0; i < 2; i++ {
		bal0[i] = w.accts.FindAccount(zzAddr(i), true).GetBalance()
	}
	for i := 0; i < 2; i++ {
		ctx := w.txctx(i, i, ctrlertypes.TRX_UNSTAKING, uint256.NewInt(0), &ctrlertypes.TrxPayloadUnstaking{TxHash: zero}, zzHash(8+i))
		zzverif.Assert(w.exec(ctx), "O4 genesis validator can unbond its initial stake")
	}
	if _, _, xerr := w.sc.Commit(); xerr != nil {
		panic(xerr)
	}
	bctx := zzBlockCtx(3, w.gov, w.accts, w.sc, nil, nil)
	_, _ = w.sc.BeginBlock(bctx)
	_, xerr := w.sc.EndBlock(bctx)
	zzverif.Assert(xerr == nil, "O4 EndBlock succeeds")
	_, _, _ = w.sc.Commit()
	for i, p := range []int64{p0, p1} {
		got := new(uint256.Int).Sub(w.accts.FindAccount(zzAddr(i), true).GetBalance(), bal0[i])
		zzverif.Assert(got.Eq(ctrlertypes.PowerToAmount(p)), "O4 every unbonded genesis stake is refunded in full")
	}
	zzverif.Reach("O4 end")
}

// ZZ_C12_O5: ONE genesis validator (initial stake with the all-zero TxHash, no
// collision) and a delegator; the validator unbonds its initial stake (which
// force-releases the delegation).  Every released stake is refunded exactly
// once: nothing before the refund height, power x 10^18 at it, nothing after,
// and the unbonding ledger is empty afterwards.
func ZZ_C12_O5() {
	w := &zzWorld{gov: zzNewGov(), accts: zzNewAccts(3)}
	w.sc = zzNewCtrler(zzverif.TempDir(), w.gov)
	p0 := zzPower("power0")
	zero := make([]byte, 32)
	if xerr := w.sc.InitLedger([]*InitStake{{PubKeys: zzPub(0), Stakes: []*Stake{NewStakeWithPower(zzAddr(0), zzAddr(0), p0, 1, zero)}}}); xerr != nil {
		panic(xerr)
	}
	withDeleg := zzverif.Choose("delegation", 2) == 1
	pd := int64(0)
	if withDeleg {
		pd = zzPower("deleg")
		d, _ := w.sc.delegateeLedger.GetFinality(ledger.ToLedgerKey(zzAddr(0)))
		_ = d.AddStake(NewStakeWithPower(zzAddr(2), zzAddr(0), pd, 1, zzHash(5)))
		_ = w.sc.delegateeLedger.SetFinality(d)
	}
	_, _, _ = w.sc.Commit()
	w.height = 2
	w.gov.lazyRewardBlocks = int64(zzverif.Choose("unbonding.period", 3))
	var bal0 [3]*uint256.Int
	for i := 0; i < 3; i++ {
		bal0[i] = w.accts.FindAccount(zzAddr(i), true).GetBalance()
	}
	ctx := w.txctx(0, 0, ctrlertypes.TRX_UNSTAKING, uint256.NewInt(0), &ctrlertypes.TrxPayloadUnstaking{TxHash: zero}, zzHash(8))
	zzverif.Assert(w.exec(ctx), "O5 the genesis validator can unbond its initial stake")
	_, _, _ = w.sc.Commit()
	refundAt := int64(2) + w.gov.lazyRewardBlocks
	for h := int64(3); h <= refundAt+3; h++ {
		bctx := zzBlockCtx(h, w.gov, w.accts, w.sc, nil, nil)
		_, _ = w.sc.BeginBlock(bctx)
		_, xerr := w.sc.EndBlock(bctx)
		zzverif.Assert(xerr == nil, "O5 EndBlock succeeds")
		_, _, _ = w.sc.Commit()
		for i, p := range []int64{p0, 0, pd} {
			got := new(uint256.Int).Sub(w.accts.FindAccount(zzAddr(i), true).GetBalance(), bal0[i])
			if h < refundAt {
				zzverif.Assert(got.IsZero(), "O5 nothing is refunded before the refund height")
			} else {
				zzverif.Assert(got.Eq(ctrlertypes.PowerToAmount(p)), "O5 from the refund height on the owner holds exactly one refund of power x 10^18")
			}
		}
	}
	zzverif.Assert(len(w.sc.ReadFrozenStakes()) == 0, "O5 refunded stakes have left the unbonding ledger")
	zzverif.Reach("O5 end")
}
