package stake

import "github.com/rigochain/rigo-go/zzverif"

// ZZ_C14_S1: Delegatee.DoSlash (doSlashAll) on ≤3 stakes with symbolic powers
// and ratio: each stake loses floor(p*ratio/100); a stake that would lose
// less than 1 is removed; totals are recomputed; nothing else changes.
func ZZ_C14_S1() {
	n := zzverif.Choose("nstakes", 4)
	d := NewDelegatee(zzAddr(0), zzPub(0))
	pre := make([]int64, n)
	self := make([]bool, n)
	for i := 0; i < n; i++ {
		pre[i] = zzPower("power")
		owner := zzverif.Choose("owner", 2) // 0 = the validator itself, 1 = a delegator
		self[i] = owner == 0
		_ = d.AddStake(NewStakeWithPower(zzAddr(owner), zzAddr(0), pre[i], 1, zzHash(i)))
	}
	ratio := zzverif.NondetI64In("ratio", 0, 100)

	slashed := d.DoSlash(ratio)

	wantTotal, wantSelf, wantSlashed := int64(0), int64(0), int64(0)
	k := 0
	for i := 0; i < n; i++ {
		loss := pre[i] * ratio / 100
		if loss < 1 {
			// forfeited: must be gone
			_, s := d.FindStake(zzHash(i))
			zzverif.Assert(s == nil, "S1 too-small stake is removed")
			continue
		}
		_, s := d.FindStake(zzHash(i))
		zzverif.Assert(s != nil, "S1 reduced stake is kept")
		if s == nil {
			return
		}
		zzverif.Assert(s.Power == pre[i]-loss, "S1 stake loses floor(p*ratio/100)")
		zzverif.Assert(s.From.Compare(zzAddr(map[bool]int{true: 0, false: 1}[self[i]])) == 0 && s.To.Compare(zzAddr(0)) == 0, "S1 owner/target unchanged")
		wantTotal += pre[i] - loss
		if self[i] {
			wantSelf += pre[i] - loss
		}
		wantSlashed += loss
		k++
	}
	zzverif.Assert(d.StakesLen() == k, "S1 number of remaining stakes")
	zzverif.Assert(d.TotalPower == wantTotal, "S1 TotalPower == sum of remaining stakes")
	zzverif.Assert(d.SelfPower == wantSelf, "S1 SelfPower == sum of remaining own stakes")
	zzverif.Assert(slashed == wantSlashed, "S1 returned slashed power")
	zzverif.Event("S1", n, ratio, d.TotalPower, d.SelfPower, slashed)
	zzverif.Reach("S1 end")
}

// ZZ_C14_S3: BlockMarker keeps a strictly increasing list; CountInWindow
// counts exactly the marks in [h0,h1]; pruning never drops a mark >= h0.
func ZZ_C14_S3() {
	n := zzverif.Choose("nmarks", 5)
	bm := &BlockMarker{}
	var marks []int64
	last := int64(0)
	for i := 0; i < n; i++ {
		h := zzverif.NondetI64In("mark", 1, 1<<40)
		xerr := bm.Mark(h)
		if h > last {
			zzverif.Assert(xerr == nil, "S3 increasing mark accepted")
			marks = append(marks, h)
			last = h
		} else {
			zzverif.Assert(xerr != nil, "S3 non-increasing mark rejected")
		}
	}
	h0 := zzverif.NondetI64In("h0", 0, 1<<40)
	h1 := zzverif.NondetI64In("h1", 0, 1<<40)
	got := bm.CountInWindow(h0, h1, true)
	want := 0
	for _, m := range marks {
		if m >= h0 && m <= h1 {
			want++
		}
	}
	zzverif.Assert(got == want, "S3 CountInWindow counts marks in [h0,h1]")
	// after pruning every mark >= h0 is still there, in order
	keep := 0
	for _, m := range marks {
		if m >= h0 {
			keep++
		}
	}
	cnt := 0
	for _, m := range bm.BlockHeights {
		if m >= h0 {
			cnt++
		}
	}
	zzverif.Assert(cnt == keep, "S3 pruning keeps every mark >= h0")
	for i := 1; i < len(bm.BlockHeights); i++ {
		zzverif.Assert(bm.BlockHeights[i-1] < bm.BlockHeights[i], "S3 list strictly increasing")
	}
	zzverif.Event("S3", n, got)
	zzverif.Reach("S3 end")
}
