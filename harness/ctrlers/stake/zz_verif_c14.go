package stake

import (
	"encoding/json"
	"github.com/holiman/uint256"
	"github.com/rigochain/rigo-go/ledger"
	"github.com/rigochain/rigo-go/zzverif"
	abcitypes "github.com/tendermint/tendermint/abci/types"
)

// ZZ_C14_S1: Delegatee.DoSlash (doSlashAll) on ≤3 stakes with symbolic powers
// and ratio: each stake loses floor(p*ratio/100); a stake that would lose
// less than 1 is removed; totals are recomputed; nothing else changes.
func ZZ_C14_S1() {
	n := zzverif.Choose("nstakes", 4)
	d := NewDelegatee(zzAddr(0), zzPub(0))
	pre := make([]int64, n)
	self := make([]bool, n)
	for i := 0; i < n; i++ {
		pre[i] = zzPower("power")
		owner := zzverif.Choose("owner", 2) // 0 = the validator itself, 1 = a delegator
		self[i] = owner == 0
		_ = d.AddStake(NewStakeWithPower(zzAddr(owner), zzAddr(0), pre[i], 1, zzHash(i)))
	}
	ratio := zzverif.NondetI64In("ratio", 0, 100)

	slashed := d.DoSlash(ratio)

	wantTotal, wantSelf, wantSlashed := int64(0), int64(0), int64(0)
	k := 0
	for i := 0; i < n; i++ {
		loss := pre[i] * ratio / 100
		if loss < 1 {
			// forfeited: must be gone
			_, s := d.FindStake(zzHash(i))
			zzverif.Assert(s == nil, "S1 too-small stake is removed")
			continue
		}
		_, s := d.FindStake(zzHash(i))
		zzverif.Assert(s != nil, "S1 reduced stake is kept")
		if s == nil {
			return
		}
		zzverif.Assert(s.Power == pre[i]-loss, "S1 stake loses floor(p*ratio/100)")
		zzverif.Assert(s.From.Compare(zzAddr(map[bool]int{true: 0, false: 1}[self[i]])) == 0 && s.To.Compare(zzAddr(0)) == 0, "S1 owner/target unchanged")
		wantTotal += pre[i] - loss
		if self[i] {
			wantSelf += pre[i] - loss
		}
		wantSlashed += loss
		k++
	}
	zzverif.Assert(d.StakesLen() == k, "S1 number of remaining stakes")
	zzverif.Assert(d.TotalPower == wantTotal, "S1 TotalPower == sum of remaining stakes")
	zzverif.Assert(d.SelfPower == wantSelf, "S1 SelfPower == sum of remaining own stakes")
	zzverif.Assert(slashed == wantSlashed, "S1 returned slashed power")
	zzverif.Event("S1", n, ratio, d.TotalPower, d.SelfPower, slashed)
	zzverif.Reach("S1 end")
}

// ZZ_C14_S3: BlockMarker keeps a strictly increasing list; CountInWindow
// counts exactly the marks in [h0,h1]; pruning never drops a mark >= h0.
func ZZ_C14_S3() {
	n := zzverif.Choose("nmarks", 5)
	bm := &BlockMarker{}
	var marks []int64
	last := int64(0)
	for i := 0; i < n; i++ {
		h := zzverif.NondetI64In("mark", 1, 1<<40)
		xerr := bm.Mark(h)
		if h > last {
			zzverif.Assert(xerr == nil, "S3 increasing mark accepted")
			marks = append(marks, h)
			last = h
		} else {
			zzverif.Assert(xerr != nil, "S3 non-increasing mark rejected")
		}
	}
	h0 := zzverif.NondetI64In("h0", 0, 1<<40)
	h1 := zzverif.NondetI64In("h1", 0, 1<<40)
	got := bm.CountInWindow(h0, h1, true)
	want := 0
	for _, m := range marks {
		if m >= h0 && m <= h1 {
			want++
		}
	}
	zzverif.Assert(got == want, "S3 CountInWindow counts marks in [h0,h1]")
	// after pruning every mark >= h0 is still there, in order
	keep := 0
	for _, m := range marks {
		if m >= h0 {
			keep++
		}
	}
	// (through the marker's own interface only: its representation is free to change)
	zzverif.Assert(bm.CountInWindow(h0, 1<<41, false) == keep, "S3 pruning keeps every mark >= h0")
	// what the ledger persists (the marker travels inside the delegatee record as JSON)
	bz, err := json.Marshal(bm)
	zzverif.Assert(err == nil, "S3 the marker can be encoded")
	if err == nil {
		bm2 := &BlockMarker{}
		zzverif.Assert(json.Unmarshal(bz, bm2) == nil, "S3 the marker can be decoded")
		zzverif.Assert(bm2.CountInWindow(h0, 1<<41, false) == keep, "S3 the marks survive the encode/decode round trip")
	}
	zzverif.Event("S3", n, got)
	zzverif.Reach("S3 end")
}

// ZZ_C14_S45: BeginBlock with evidence and a missed vote.
//   S4: a validator is jailed iff window - missed < minimum, where missed counts
//       the marked heights inside the window; jailing moves every stake bonded
//       to it to the unbonding ledger (refund height = height + unbonding
//       period) and removes the delegatee; otherwise only the mark is added.
//   S5: evidence against an unknown validator changes nothing; two pieces of
//       evidence against the same validator apply one after the other; the
//       other validator and all accounts are untouched.
func ZZ_C14_S45() {
	w := zzSeed(2, false)
	// the reward basis height-4 must be a committed version (1 or 2 here)
	h := int64(5 + zzverif.Choose("height", 2))
	w.height = h
	w.gov.signedBlocksWindow = zzverif.NondetI64In("gov.window", 1, 6)
	w.gov.minSignedBlocks = zzverif.NondetI64In("gov.minSigned", 1, 6)
	// earlier misses of A1 (strictly increasing, before h-1)
	d1 := w.bonded1()
	var marks []int64
	if d1 != nil {
		nm := zzverif.Choose("nmarks", 3)
		last := int64(0)
		for i := 0; i < nm; i++ {
			m := zzverif.NondetI64In("mark", 1, 4)
			zzverif.Assume(m > last && m < h-1)
			_ = d1.NotSignedHeights.Mark(m)
			marks = append(marks, m)
			last = m
		}
		_ = w.sc.delegateeLedger.SetFinality(d1)
	}
	_, _, _ = w.sc.Commit() // version 2
	// evidence: none / against A0 once / twice / against a stranger
	evKind := zzverif.Choose("evidence", 4)
	// the offender is A0 or A1 (A1 may also have missed the last block: slashing and
	// the downtime rule then act on the same validator in one BeginBlock)
	evTarget := 0
	if (evKind == 1 || evKind == 2) && zzverif.Choose("evidence.against.a1", 2) == 1 {
		evTarget = 1
	}
	var evs []abcitypes.Evidence
	switch evKind {
	case 1:
		evs = []abcitypes.Evidence{zzEvidence(evTarget)}
	case 2:
		evs = []abcitypes.Evidence{zzEvidence(evTarget), zzEvidence(evTarget)}
	case 3:
		evs = []abcitypes.Evidence{zzEvidence(2)}
	}
	var votes []abcitypes.VoteInfo
	a1Missed := zzverif.Choose("a1.missed", 2) == 1
	for i := 0; i < 2; i++ {
		t := int64(0)
		for _, r := range w.stakes {
			if r.to == i {
				t += r.power
			}
		}
		if t > 0 {
			votes = append(votes, abcitypes.VoteInfo{Validator: abcitypes.Validator{Address: zzAddr(i), Power: t}, SignedLastBlock: !(i == 1 && a1Missed)})
		}
	}
	var bal [3]*uint256.Int
	for i := 0; i < 3; i++ {
		bal[i] = w.accts.FindAccount(zzAddr(i), true).GetBalance()
	}
	// rewards are C13's subject: switch them off here
	w.gov.rewardPerPower = uint256.NewInt(0)
	bctx := zzBlockCtx(h, w.gov, w.accts, w.sc, votes, evs)
	_, xerr := w.sc.BeginBlock(bctx)
	zzverif.Assert(xerr == nil, "S45 BeginBlock succeeds")
	// ---- expected slashing of the offender
	ratio := w.gov.SlashRatio()
	for _, r := range w.stakes {
		if r.to != evTarget {
			continue
		}
		times := 0
		if evKind == 1 {
			times = 1
		} else if evKind == 2 {
			times = 2
		}
		for t := 0; t < times && r.live; t++ {
			loss := r.power * ratio / 100
			if loss < 1 {
				r.live = false
			} else {
				r.power -= loss
			}
		}
	}
	// ---- expected jailing of A1
	jailed := false
	if d1 != nil && a1Missed {
		all := append(append([]int64{}, marks...), h-1)
		s := h - 1 - w.gov.SignedBlocksWindow()
		if s < 0 {
			s = 0
		}
		// pruning of an earlier call is not modelled: marks were added directly
		missed := int64(0)
		for _, m := range all {
			if m >= s && m <= h-1 {
				missed++
			}
		}
		jailed = w.gov.SignedBlocksWindow()-missed < w.gov.MinSignedBlocks()
	}
	want := h + w.gov.LazyRewardBlocks()
	for _, r := range w.stakes {
		if !r.live {
			zzverif.Assert(w.bonded(r.to, r.hash) == nil, "S1 a stake too small to be reduced is forfeited")
			continue
		}
		fs, _ := w.sc.frozenLedger.GetFinality(ledger.ToLedgerKey(r.hash))
		if r.to == 1 && jailed {
			zzverif.Assert(w.bonded(1, r.hash) == nil, "S4 jailed: stake no longer bonded")
			zzverif.Assert(fs != nil, "S4 jailed: stake moved to unbonding")
			if fs != nil {
				zzverif.Assert(fs.RefundHeight == want && fs.Power == r.power, "S4 jailed: full unbonding period, power unchanged")
			}
		} else {
			b := w.bonded(r.to, r.hash)
			zzverif.Assert(b != nil && fs == nil, "S4/S5 every other stake stays bonded")
			if b != nil {
				zzverif.Assert(b.Power == r.power, "S5 only the offender's stakes lose the slash percentage (per piece of evidence)")
			}
		}
	}
	if d1 != nil {
		dd, _ := w.sc.delegateeLedger.GetFinality(ledger.ToLedgerKey(zzAddr(1)))
		zzverif.Assert((dd == nil) == jailed, "S4 the validator leaves the ledger iff window - missed < minimum")
	}
	for i := 0; i < 3; i++ {
		zzverif.Assert(w.accts.FindAccount(zzAddr(i), true).GetBalance().Eq(bal[i]), "S45 no account balance changes")
	}
	// C11's invariant after slashing / jailing (totals = sums, every live stake in exactly one place)
	w.checkInvariant("S45", false)
	zzverif.Event("S45", evKind, a1Missed, jailed)
	zzverif.Reach("S45 end")
	if jailed {
		zzverif.Reach("S45 jailed")
	}
}

func (w *zzWorld) bonded1() *Delegatee {
	d, _ := w.sc.delegateeLedger.GetFinality(ledger.ToLedgerKey(zzAddr(1)))
	return d
}
