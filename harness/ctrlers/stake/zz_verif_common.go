package stake

// Shared fixtures of the stake-package harnesses (DESIGN §3: universe U).

import (
	"github.com/holiman/uint256"
	cfg "github.com/rigochain/rigo-go/cmd/config"
	ctrlertypes "github.com/rigochain/rigo-go/ctrlers/types"
	"github.com/rigochain/rigo-go/types"
	"github.com/rigochain/rigo-go/types/xerrors"
	"github.com/rigochain/rigo-go/zzverif"
	abcitypes "github.com/tendermint/tendermint/abci/types"
	tmlog "github.com/tendermint/tendermint/libs/log"
	tmproto "github.com/tendermint/tendermint/proto/tendermint/types"
)

// A-SUPPLY: a single power value is at most 2^55 so that power*100 and sums of
// a handful of powers stay inside int64 (the token supply is far below that).
const zzMaxPower = int64(1) << 55

func zzAddr(i int) types.Address {
	a := make([]byte, 20)
	a[0] = 0xA0 + byte(i)
	a[19] = byte(i + 1)
	return a
}

func zzHash(i int) []byte {
	h := make([]byte, 32)
	h[0] = 0xC0 + byte(i)
	h[31] = byte(i + 1)
	return h
}

func zzPub(i int) []byte {
	p := make([]byte, 33)
	p[0] = 0x02
	p[1] = byte(i + 1)
	return p
}

func zzPower(name string) int64 {
	return zzverif.NondetI64In(name, 1, zzMaxPower)
}

// ---------------------------------------------------------------------------
// governance parameters as a symbolic IGovHandler (assumption A-GOV)

type zzGov struct {
	maxValidatorCnt, lazyRewardBlocks, lazyApplyingBlocks     int64
	minVotingPeriod, maxVotingPeriod                          int64
	minSelfStakeRatio, maxUpdatableRatio, maxIndividualRatio  int64
	slashRatio, signedBlocksWindow, minSignedBlocks           int64
	minValidatorStake, minDelegatorStake, rewardPerPower, gasPrice *uint256.Int
	minTrxGas                                                 uint64
}

func zzNewGov() *zzGov {
	g := &zzGov{}
	g.maxValidatorCnt = zzverif.NondetI64In("gov.maxValidatorCnt", 1, 100)
	g.lazyRewardBlocks = zzverif.NondetI64In("gov.lazyRewardBlocks", 0, 1<<40)
	g.lazyApplyingBlocks = 10
	g.minVotingPeriod, g.maxVotingPeriod = 10, 10
	g.minSelfStakeRatio = zzverif.NondetI64In("gov.minSelfStakeRatio", 0, 100)
	g.maxUpdatableRatio, g.maxIndividualRatio = 33, 33
	g.slashRatio = zzverif.NondetI64In("gov.slashRatio", 0, 100)
	g.signedBlocksWindow = zzverif.NondetI64In("gov.signedBlocksWindow", 0, 1<<31-1)
	g.minSignedBlocks = zzverif.NondetI64In("gov.minSignedBlocks", 0, 1<<31-1)
	// stakes are whole powers: minValidatorStake = p * 10^18
	mvp := zzverif.NondetI64In("gov.minValidatorPower", 1, zzMaxPower)
	g.minValidatorStake = ctrlertypes.PowerToAmount(mvp)
	mdp := zzverif.NondetI64In("gov.minDelegatorPower", 0, zzMaxPower)
	g.minDelegatorStake = ctrlertypes.PowerToAmount(mdp)
	g.rewardPerPower = zzverif.NondetU256Below("gov.rewardPerPower", new(uint256.Int).Lsh(uint256.NewInt(1), 64))
	g.gasPrice = zzverif.NondetU256Below("gov.gasPrice", new(uint256.Int).Lsh(uint256.NewInt(1), 64))
	g.minTrxGas = 10
	return g
}

func (g *zzGov) Version() int64                  { return 1 }
func (g *zzGov) MaxValidatorCnt() int64          { return g.maxValidatorCnt }
func (g *zzGov) MinValidatorStake() *uint256.Int { return g.minValidatorStake }
func (g *zzGov) MinDelegatorStake() *uint256.Int { return g.minDelegatorStake }
func (g *zzGov) RewardPerPower() *uint256.Int    { return g.rewardPerPower }
func (g *zzGov) LazyRewardBlocks() int64         { return g.lazyRewardBlocks }
func (g *zzGov) LazyApplyingBlocks() int64       { return g.lazyApplyingBlocks }
func (g *zzGov) GasPrice() *uint256.Int          { return g.gasPrice }
func (g *zzGov) MinTrxGas() uint64               { return g.minTrxGas }
func (g *zzGov) MinTrxFee() *uint256.Int {
	return new(uint256.Int).Mul(uint256.NewInt(g.minTrxGas), g.gasPrice)
}
func (g *zzGov) MaxTrxGas() uint64              { return 1 << 62 }
func (g *zzGov) MaxTrxFee() *uint256.Int        { return uint256.NewInt(1 << 62) }
func (g *zzGov) MaxBlockGas() uint64            { return 1 << 62 }
func (g *zzGov) MinVotingPeriodBlocks() int64   { return g.minVotingPeriod }
func (g *zzGov) MaxVotingPeriodBlocks() int64   { return g.maxVotingPeriod }
func (g *zzGov) MinSelfStakeRatio() int64       { return g.minSelfStakeRatio }
func (g *zzGov) MaxUpdatableStakeRatio() int64  { return g.maxUpdatableRatio }
func (g *zzGov) MaxIndividualStakeRatio() int64 { return g.maxIndividualRatio }
func (g *zzGov) SlashRatio() int64              { return g.slashRatio }
func (g *zzGov) SignedBlocksWindow() int64      { return g.signedBlocksWindow }
func (g *zzGov) MinSignedBlocks() int64         { return g.minSignedBlocks }

var _ ctrlertypes.IGovHandler = (*zzGov)(nil)

// ---------------------------------------------------------------------------
// a plain account book as IAccountHandler (the account controller itself is
// exercised by the node-level harnesses)

type zzAccts struct {
	m map[string]*ctrlertypes.Account
}

func zzNewAccts(n int) *zzAccts {
	a := &zzAccts{m: map[string]*ctrlertypes.Account{}}
	for i := 0; i < n; i++ {
		acct := ctrlertypes.NewAccount(zzAddr(i))
		bal := zzverif.NondetU256Below("balance", zzMaxBalance())
		acct.SetBalance(bal)
		a.m[string(zzAddr(i))] = acct
	}
	return a
}

// A-SUPPLY for balances: < 2^100 (about 1.2e12 whole coins)
func zzMaxBalance() *uint256.Int { return new(uint256.Int).Lsh(uint256.NewInt(1), 100) }

func (a *zzAccts) FindOrNewAccount(addr types.Address, exec bool) *ctrlertypes.Account {
	if acct := a.m[string(addr)]; acct != nil {
		return acct
	}
	acct := ctrlertypes.NewAccount(addr)
	a.m[string(addr)] = acct
	return acct
}
func (a *zzAccts) FindAccount(addr types.Address, exec bool) *ctrlertypes.Account {
	return a.m[string(addr)]
}
func (a *zzAccts) Transfer(from, to types.Address, amt *uint256.Int, exec bool) xerrors.XError {
	f, t := a.FindAccount(from, exec), a.FindOrNewAccount(to, exec)
	if f == nil {
		return xerrors.ErrNotFoundAccount
	}
	if xerr := f.SubBalance(amt); xerr != nil {
		return xerr
	}
	return t.AddBalance(amt)
}
func (a *zzAccts) Reward(to types.Address, amt *uint256.Int, exec bool) xerrors.XError {
	acct := a.FindAccount(to, exec)
	if acct == nil {
		return xerrors.ErrNotFoundAccount
	}
	return acct.AddBalance(amt)
}
func (a *zzAccts) ImmutableAcctCtrlerAt(int64) (ctrlertypes.IAccountHandler, xerrors.XError) {
	return a, nil
}
func (a *zzAccts) SetAccountCommittable(*ctrlertypes.Account, bool) xerrors.XError { return nil }

var _ ctrlertypes.IAccountHandler = (*zzAccts)(nil)

// ---------------------------------------------------------------------------

func zzNewCtrler(dir string, gov ctrlertypes.IGovHandler) *StakeCtrler {
	conf := cfg.DefaultConfig()
	conf.DBPath = dir
	c, xerr := NewStakeCtrler(conf, gov, tmlog.NewNopLogger())
	if xerr != nil {
		panic(xerr)
	}
	return c
}

func zzBlockCtx(height int64, gov ctrlertypes.IGovHandler, accts ctrlertypes.IAccountHandler, sc *StakeCtrler, votes []abcitypes.VoteInfo, evs []abcitypes.Evidence) *ctrlertypes.BlockContext {
	req := abcitypes.RequestBeginBlock{
		Header:              tmproto.Header{Height: height},
		LastCommitInfo:      abcitypes.LastCommitInfo{Votes: votes},
		ByzantineValidators: evs,
	}
	return ctrlertypes.NewBlockContext(req, gov, accts, sc)
}

func zzTenTo18() *uint256.Int { return uint256.NewInt(1000000000000000000) }
