package stake

// Shared fixtures of the stake-package harnesses (DESIGN §3: universe U).

import (
	"github.com/rigochain/rigo-go/types"
	"github.com/rigochain/rigo-go/zzverif"
)

// A-SUPPLY: a single power value is at most 2^55 so that power*100 and sums of
// a handful of powers stay inside int64 (the token supply is far below that).
const zzMaxPower = int64(1) << 55

func zzAddr(i int) types.Address {
	a := make([]byte, 20)
	a[0] = 0xA0 + byte(i)
	a[19] = byte(i + 1)
	return a
}

func zzHash(i int) []byte {
	h := make([]byte, 32)
	h[0] = 0xC0 + byte(i)
	h[31] = byte(i + 1)
	return h
}

func zzPub(i int) []byte {
	p := make([]byte, 33)
	p[0] = 0x02
	p[1] = byte(i + 1)
	return p
}

func zzPower(name string) int64 {
	p := zzverif.NondetI64(name)
	zzverif.Assume(p > 0 && p <= zzMaxPower)
	return p
}
