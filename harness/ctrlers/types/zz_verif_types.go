package types

// Harness helpers that need access to unexported fields of this package.

import (
	"github.com/holiman/uint256"
	"github.com/rigochain/rigo-go/zzverif"
)

func zzU64Bound() *uint256.Int { return new(uint256.Int).Lsh(uint256.NewInt(1), 64) }

// ZZSymGovParams returns governance parameters with symbolic values inside
// the sane ranges of assumption A-GOV.  Fields whose bit is 0 in mask are left
// unset (zero) – used for proposal options.
func ZZSymGovParams(tag string, mask uint32) *GovParams {
	g := &GovParams{}
	bit := func(i uint) bool { return mask&(1<<i) != 0 }
	i64 := func(i uint, name string, lo, hi int64) int64 {
		if !bit(i) {
			return 0
		}
		return zzverif.NondetI64In(tag+"."+name, lo, hi)
	}
	u256 := func(i uint, name string) *uint256.Int {
		if !bit(i) {
			return nil
		}
		v := zzverif.NondetU256Below(tag+"."+name, zzU64Bound())
		zzverif.Assume(!v.IsZero())
		return v
	}
	g.version = i64(0, "version", 1, 1<<20)
	g.maxValidatorCnt = i64(1, "maxValidatorCnt", 1, 100)
	g.minValidatorStake = u256(2, "minValidatorStake")
	g.minDelegatorStake = u256(3, "minDelegatorStake")
	g.rewardPerPower = u256(4, "rewardPerPower")
	g.lazyRewardBlocks = i64(5, "lazyRewardBlocks", 1, 1<<40)
	g.lazyApplyingBlocks = i64(6, "lazyApplyingBlocks", 1, 1<<40)
	g.gasPrice = u256(7, "gasPrice")
	if bit(8) {
		g.minTrxGas = zzverif.NondetU64In(tag+".minTrxGas", 1, 1<<40)
	}
	if bit(9) {
		g.maxTrxGas = zzverif.NondetU64In(tag+".maxTrxGas", 1<<41, 1<<62)
	}
	if bit(10) {
		g.maxBlockGas = zzverif.NondetU64In(tag+".maxBlockGas", 1<<41, 1<<62)
	}
	g.minVotingPeriodBlocks = i64(11, "minVotingPeriodBlocks", 1, 1<<20)
	g.maxVotingPeriodBlocks = i64(12, "maxVotingPeriodBlocks", 1<<20, 1<<40)
	g.minSelfStakeRatio = i64(13, "minSelfStakeRatio", 1, 100)
	g.maxUpdatableStakeRatio = i64(14, "maxUpdatableStakeRatio", 1, 100)
	g.maxIndividualStakeRatio = i64(15, "maxIndividualStakeRatio", 1, 100)
	g.slashRatio = i64(16, "slashRatio", 1, 100)
	g.signedBlocksWindow = i64(17, "signedBlocksWindow", 1, 1<<31-1)
	g.minSignedBlocks = i64(18, "minSignedBlocks", 1, 1<<31-1)
	return g
}

const ZZAllGovFields = uint32(1<<19 - 1)

func zzU256Eq(a, b *uint256.Int) bool {
	if a == nil || b == nil {
		return a == nil && b == nil
	}
	return a.Eq(b)
}

// ZZGovParamsAssertEq asserts equality field by field (no short-circuit forks).
func ZZGovParamsAssertEq(a, b *GovParams, label string) {
	zzverif.Assert(a.version == b.version, label+" [version]")
	zzverif.Assert(a.maxValidatorCnt == b.maxValidatorCnt, label+" [maxValidatorCnt]")
	zzverif.Assert(zzU256Eq(a.minValidatorStake, b.minValidatorStake), label+" [minValidatorStake]")
	zzverif.Assert(zzU256Eq(a.MinDelegatorStake(), b.MinDelegatorStake()), label+" [minDelegatorStake]")
	zzverif.Assert(zzU256Eq(a.rewardPerPower, b.rewardPerPower), label+" [rewardPerPower]")
	zzverif.Assert(a.lazyRewardBlocks == b.lazyRewardBlocks, label+" [lazyRewardBlocks]")
	zzverif.Assert(a.lazyApplyingBlocks == b.lazyApplyingBlocks, label+" [lazyApplyingBlocks]")
	zzverif.Assert(zzU256Eq(a.gasPrice, b.gasPrice), label+" [gasPrice]")
	zzverif.Assert(a.minTrxGas == b.minTrxGas, label+" [minTrxGas]")
	zzverif.Assert(a.maxTrxGas == b.maxTrxGas, label+" [maxTrxGas]")
	zzverif.Assert(a.maxBlockGas == b.maxBlockGas, label+" [maxBlockGas]")
	zzverif.Assert(a.minVotingPeriodBlocks == b.minVotingPeriodBlocks, label+" [minVotingPeriodBlocks]")
	zzverif.Assert(a.maxVotingPeriodBlocks == b.maxVotingPeriodBlocks, label+" [maxVotingPeriodBlocks]")
	zzverif.Assert(a.minSelfStakeRatio == b.minSelfStakeRatio, label+" [minSelfStakeRatio]")
	zzverif.Assert(a.maxUpdatableStakeRatio == b.maxUpdatableStakeRatio, label+" [maxUpdatableStakeRatio]")
	zzverif.Assert(a.maxIndividualStakeRatio == b.maxIndividualStakeRatio, label+" [maxIndividualStakeRatio]")
	zzverif.Assert(a.slashRatio == b.slashRatio, label+" [slashRatio]")
	zzverif.Assert(a.signedBlocksWindow == b.signedBlocksWindow, label+" [signedBlocksWindow]")
	zzverif.Assert(a.minSignedBlocks == b.minSignedBlocks, label+" [minSignedBlocks]")
}

// ZZGovOverlay returns old with every field that opt sets (non-zero) replaced:
// the specification of "fields the option leaves unset keep their previous values".
func ZZGovOverlay(old, opt *GovParams) *GovParams {
	r := &GovParams{}
	pi := func(o, n int64) int64 {
		if n != 0 {
			return n
		}
		return o
	}
	pu := func(o, n uint64) uint64 {
		if n != 0 {
			return n
		}
		return o
	}
	pz := func(o, n *uint256.Int) *uint256.Int {
		if n != nil && !n.IsZero() {
			return n
		}
		return o
	}
	r.version = pi(old.version, opt.version)
	r.maxValidatorCnt = pi(old.maxValidatorCnt, opt.maxValidatorCnt)
	r.minValidatorStake = pz(old.minValidatorStake, opt.minValidatorStake)
	r.minDelegatorStake = pz(old.minDelegatorStake, opt.minDelegatorStake)
	r.rewardPerPower = pz(old.rewardPerPower, opt.rewardPerPower)
	r.lazyRewardBlocks = pi(old.lazyRewardBlocks, opt.lazyRewardBlocks)
	r.lazyApplyingBlocks = pi(old.lazyApplyingBlocks, opt.lazyApplyingBlocks)
	r.gasPrice = pz(old.gasPrice, opt.gasPrice)
	r.minTrxGas = pu(old.minTrxGas, opt.minTrxGas)
	r.maxTrxGas = pu(old.maxTrxGas, opt.maxTrxGas)
	r.maxBlockGas = pu(old.maxBlockGas, opt.maxBlockGas)
	r.minVotingPeriodBlocks = pi(old.minVotingPeriodBlocks, opt.minVotingPeriodBlocks)
	r.maxVotingPeriodBlocks = pi(old.maxVotingPeriodBlocks, opt.maxVotingPeriodBlocks)
	r.minSelfStakeRatio = pi(old.minSelfStakeRatio, opt.minSelfStakeRatio)
	r.maxUpdatableStakeRatio = pi(old.maxUpdatableStakeRatio, opt.maxUpdatableStakeRatio)
	r.maxIndividualStakeRatio = pi(old.maxIndividualStakeRatio, opt.maxIndividualStakeRatio)
	r.slashRatio = pi(old.slashRatio, opt.slashRatio)
	r.signedBlocksWindow = pi(old.signedBlocksWindow, opt.signedBlocksWindow)
	r.minSignedBlocks = pi(old.minSignedBlocks, opt.minSignedBlocks)
	return r
}

// ZZSetSigning sets the downtime parameters of p.
func ZZSetSigning(p *GovParams, window, minSigned int64) {
	p.signedBlocksWindow, p.minSignedBlocks = window, minSigned
}

// ZZSetRatios sets the three stake-limit ratios of p.
func ZZSetRatios(p *GovParams, minSelf, maxUpdatable, maxIndividual int64) {
	p.minSelfStakeRatio, p.maxUpdatableStakeRatio, p.maxIndividualStakeRatio = minSelf, maxUpdatable, maxIndividual
}

// ZZSetMinTrxGas sets the minimum gas of a transaction (a governance parameter).
func ZZSetMinTrxGas(p *GovParams, g uint64) { p.minTrxGas = g }
