package types

// C03/I1: the signed encoding determines every executed field.  Two symbolic
// transactions of the same type are encoded by the repository's EncodeRLP
// methods (the codec below them is an injective function of the struct it is
// handed, A-CODEC); if the encodings are equal every field must be equal.

import (
	"github.com/ethereum/go-ethereum/rlp"
	"github.com/holiman/uint256"
	"github.com/rigochain/rigo-go/zzverif"
)

func zzPickBytes(tag string, n int) []byte {
	b := make([]byte, n)
	if zzverif.Choose(tag, 2) == 1 {
		b[n-1] = 1
	}
	return b
}

func zzPickStr(tag string) string {
	return []string{"", "a"}[zzverif.Choose(tag, 2)]
}

func zzSymPayload(typ int32, tag string) ITrxPayload {
	switch typ {
	case TRX_UNSTAKING:
		return &TrxPayloadUnstaking{TxHash: zzPickBytes(tag+".txhash", 32)}
	case TRX_WITHDRAW:
		return &TrxPayloadWithdraw{ReqAmt: zzverif.NondetU256(tag + ".reqAmt")}
	case TRX_PROPOSAL:
		var opts [][]byte
		for i := 0; i < zzverif.Choose(tag+".nopts", 2); i++ {
			opts = append(opts, zzPickBytes(tag+".opt", 2))
		}
		return &TrxPayloadProposal{Message: zzPickStr(tag + ".msg"), StartVotingHeight: zzverif.NondetI64(tag + ".start"),
			VotingPeriodBlocks: zzverif.NondetI64(tag + ".period"), ApplyingHeight: zzverif.NondetI64(tag + ".applying"),
			OptType: zzverif.NondetI32(tag + ".optType"), Options: opts}
	case TRX_VOTING:
		return &TrxPayloadVoting{TxHash: zzPickBytes(tag+".txhash", 32), Choice: zzverif.NondetI32(tag + ".choice")}
	case TRX_CONTRACT:
		return &TrxPayloadContract{Data: zzPickBytes(tag+".data", 3)}
	case TRX_SETDOC:
		return &TrxPayloadSetDoc{Name: zzPickStr(tag + ".name"), URL: zzPickStr(tag + ".url")}
	}
	return nil
}

func zzSymTrx(typ int32, tag string) *Trx {
	return &Trx{Version: zzverif.NondetU32(tag + ".version"), Time: zzverif.NondetI64(tag + ".time"), Nonce: zzverif.NondetU64(tag + ".nonce"),
		From: zzPickBytes(tag+".from", 20), To: zzPickBytes(tag+".to", 20), Amount: zzverif.NondetU256(tag + ".amount"),
		Gas: zzverif.NondetU64(tag + ".gas"), GasPrice: zzverif.NondetU256(tag + ".gasPrice"), Type: typ, Payload: zzSymPayload(typ, tag)}
}

func ZZ_C03_I1() {
	typ := int32(1 + zzverif.Choose("type", 8))
	a, b := zzSymTrx(typ, "a"), zzSymTrx(typ, "b")
	ea, err := rlp.EncodeToBytes(a)
	if err != nil {
		panic(err)
	}
	eb, err := rlp.EncodeToBytes(b)
	if err != nil {
		panic(err)
	}
	// the chain id enters the signed bytes as a prefix next to the encoding;
	// PreImageToSignTrxRLP is exercised by the node-level harness (I2/I3)
	if !zzverif.SameBytes(ea, eb) {
		zzverif.Reach("I1 different encodings")
		return
	}
	zzverif.Assert(a.Version == b.Version, "I1 version is bound by the signature")
	zzverif.Assert(a.Time == b.Time, "I1 time is bound by the signature")
	zzverif.Assert(a.Nonce == b.Nonce, "I1 nonce is bound by the signature")
	zzverif.Assert(a.From.Compare(b.From) == 0 && a.To.Compare(b.To) == 0, "I1 sender and receiver are bound by the signature")
	zzverif.Assert(a.Amount.Eq(b.Amount), "I1 amount is bound by the signature")
	zzverif.Assert(a.Gas == b.Gas && a.GasPrice.Eq(b.GasPrice), "I1 gas and gas price are bound by the signature")
	switch pa := a.Payload.(type) {
	case *TrxPayloadUnstaking:
		zzverif.Assert(pa.Equal(b.Payload), "I1 unstaking payload is bound by the signature")
	case *TrxPayloadWithdraw:
		zzverif.Assert(pa.ReqAmt.Eq(b.Payload.(*TrxPayloadWithdraw).ReqAmt), "I1 withdraw payload is bound by the signature")
	case *TrxPayloadProposal:
		pb := b.Payload.(*TrxPayloadProposal)
		zzverif.Assert(pa.Message == pb.Message, "I1 proposal message is bound by the signature")
		zzverif.Assert(pa.StartVotingHeight == pb.StartVotingHeight, "I1 proposal start height is bound by the signature")
		zzverif.Assert(pa.VotingPeriodBlocks == pb.VotingPeriodBlocks, "I1 proposal voting period is bound by the signature")
		zzverif.Assert(pa.ApplyingHeight == pb.ApplyingHeight, "I1 proposal applying height is bound by the signature")
		zzverif.Assert(pa.OptType == pb.OptType, "I1 proposal option type is bound by the signature")
		zzverif.Assert(len(pa.Options) == len(pb.Options), "I1 proposal options are bound by the signature")
		for i := range pa.Options {
			if i < len(pb.Options) {
				zzverif.Assert(zzverif.SameBytes(pa.Options[i], pb.Options[i]), "I1 proposal option is bound by the signature")
			}
		}
	case *TrxPayloadVoting:
		pb := b.Payload.(*TrxPayloadVoting)
		zzverif.Assert(zzverif.SameBytes(pa.TxHash, pb.TxHash) && pa.Choice == pb.Choice, "I1 voting payload is bound by the signature")
	case *TrxPayloadContract:
		zzverif.Assert(zzverif.SameBytes(pa.Data, b.Payload.(*TrxPayloadContract).Data), "I1 contract data is bound by the signature")
	case *TrxPayloadSetDoc:
		pb := b.Payload.(*TrxPayloadSetDoc)
		zzverif.Assert(pa.Name == pb.Name && pa.URL == pb.URL, "I1 setdoc payload is bound by the signature")
	}
	zzverif.Reach("I1 equal encodings")
}

// ZZ_C03_I7: the chain id is bound by the signature in full.  Two chain ids
// from a menu (lengths 1..50 - Tendermint allows 50 - including ids that
// share their first 31 / 32 / 33 / 49 bytes, and ids that are prefixes of
// each other) and one symbolic transaction: the signed pre-images of the RLP
// and of the protobuf form are equal only if the chain ids are (round 9,
// seed C03-i).
func ZZ_C03_I7() {
	base := "rigo-enterprise-consortium-network-main-0123456789"
	menu := []string{"z", "rigo", base[:31], base[:32], base[:32] + "X", base[:33], base[:33] + "Y", base[:49], base[:49] + "a", base[:49] + "b", base}
	ia, ib := zzverif.Choose("chain.a", len(menu)), zzverif.Choose("chain.b", len(menu))
	typ := int32(1 + zzverif.Choose("type", 8))
	tx := zzSymTrx(typ, "t")
	ra, xa := PreImageToSignTrxRLP(tx, menu[ia])
	rb, xb := PreImageToSignTrxRLP(tx, menu[ib])
	zzverif.Assert(xa == nil && xb == nil, "I7 pre-image is built")
	if ia != ib {
		zzverif.Assert(!zzverif.SameBytes(ra, rb), "I7 RLP pre-images for different chain ids differ")
		zzverif.Reach("I7 different chains")
	} else {
		zzverif.Assert(zzverif.SameBytes(ra, rb), "I7 pre-image is a function of (chain id, transaction)")
	}
	{
		pa, ya := PreImageToSignTrxProto(tx, menu[ia])
		pb, yb := PreImageToSignTrxProto(tx, menu[ib])
		if ya == nil && yb == nil && ia != ib {
			zzverif.Assert(!zzverif.SameBytes(pa, pb), "I7 protobuf pre-images for different chain ids differ")
		}
	}
	zzverif.Reach("I7 end")
}

var _ = uint256.NewInt
