package libs

// Engine robustness: library calls that a realistic change of the repository
// may start to use.  Not a property check - run by the engine self-test.

import (
	"bytes"
	"encoding/binary"
	"encoding/hex"
	"errors"
	"fmt"
	"math/big"
	"math/bits"
	"sort"
	"strconv"
	"strings"
	"sync"
	"sync/atomic"

	"github.com/holiman/uint256"
	"github.com/rigochain/rigo-go/zzverif"
)

type zzPair struct {
	k string
	v int64
}

var zzErrSentinel = errors.New("sentinel")

func ZZ_Lib() {
	x := zzverif.NondetI64In("x", 0, 1000)
	y := zzverif.NondetI64In("y", 0, 1000)
	// sort
	ps := []zzPair{{"b", x}, {"a", y}, {"c", 5}}
	sort.Slice(ps, func(i, j int) bool { return ps[i].k < ps[j].k })
	zzverif.Assert(ps[0].k == "a" && ps[2].k == "c", "sort.Slice by string key")
	vs := []int64{x, y, 500}
	sort.SliceStable(vs, func(i, j int) bool { return vs[i] < vs[j] })
	zzverif.Assert(vs[0] <= vs[1] && vs[1] <= vs[2], "sort.SliceStable on symbolic values")
	ss := []string{"q", "p"}
	sort.Strings(ss)
	zzverif.Assert(ss[0] == "p", "sort.Strings")
	is := []int{3, 1, 2}
	sort.Ints(is)
	zzverif.Assert(is[0] == 1 && sort.SearchInts(is, 2) == 1, "sort.Ints / SearchInts")
	// strings / strconv
	zzverif.Assert(strings.HasPrefix("0xab", "0x") && strings.TrimPrefix("0xab", "0x") == "ab", "strings prefix")
	zzverif.Assert(strings.Join(strings.Split("a,b,c", ","), "-") == "a-b-c", "split/join")
	zzverif.Assert(strings.Contains("hello", "ell") && strings.ToUpper("ab") == "AB" && strings.Repeat("ab", 2) == "abab", "strings misc")
	zzverif.Assert(strconv.Itoa(42) == "42" && strconv.FormatInt(-7, 10) == "-7", "strconv format")
	n, err := strconv.ParseUint("123", 10, 64)
	zzverif.Assert(err == nil && n == 123, "ParseUint")
	_, err = strconv.Atoi("zz")
	zzverif.Assert(err != nil, "Atoi error")
	// bytes / hex / binary
	zzverif.Assert(bytes.Equal([]byte{1, 2}, []byte{1, 2}) && bytes.Compare([]byte{1}, []byte{2}) < 0 && bytes.HasPrefix([]byte{1, 2, 3}, []byte{1, 2}), "bytes")
	zzverif.Assert(hex.EncodeToString([]byte{0xab, 0x01}) == "ab01", "hex")
	hb, err := hex.DecodeString("ff00")
	zzverif.Assert(err == nil && len(hb) == 2 && hb[0] == 0xff, "hex decode")
	buf := make([]byte, 8)
	binary.BigEndian.PutUint64(buf, 0x0102030405060708)
	zzverif.Assert(buf[0] == 1 && buf[7] == 8 && binary.BigEndian.Uint64(buf) == 0x0102030405060708, "binary big endian")
	binary.LittleEndian.PutUint32(buf, 7)
	zzverif.Assert(binary.LittleEndian.Uint32(buf) == 7, "binary little endian")
	// errors / fmt
	e2 := fmt.Errorf("wrapped: %w", zzErrSentinel)
	zzverif.Assert(errors.Is(e2, zzErrSentinel) && errors.Unwrap(e2) == zzErrSentinel, "errors.Is / Unwrap")
	zzverif.Assert(fmt.Sprintf("%d-%s-%v", 3, "a", true) == "3-a-true", "fmt.Sprintf concrete")
	_ = fmt.Sprintf("%d", x) // symbolic argument: opaque, must not fail
	// math/bits, big
	zzverif.Assert(bits.Len64(8) == 4 && bits.OnesCount64(7) == 3, "math/bits")
	hi, lo := bits.Mul64(1<<63, 4)
	zzverif.Assert(hi == 2 && lo == 0, "bits.Mul64")
	a := new(big.Int).SetUint64(1 << 62)
	b := new(big.Int).Mul(a, big.NewInt(8))
	zzverif.Assert(b.Cmp(a) > 0 && b.BitLen() == 66 && new(big.Int).Sub(b, b).Sign() == 0, "big.Int concrete arithmetic")
	c, ok := new(big.Int).SetString("ff", 16)
	zzverif.Assert(ok && c.Uint64() == 255 && len(c.Bytes()) == 1, "big.Int SetString / Bytes")
	// uint256 siblings
	u := uint256.NewInt(uint64(x))
	w, over := new(uint256.Int).AddOverflow(u, uint256.NewInt(uint64(y)))
	zzverif.Assert(!over && w.Uint64() == uint64(x+y), "uint256.AddOverflow")
	_, under := new(uint256.Int).SubOverflow(uint256.NewInt(1), uint256.NewInt(2))
	zzverif.Assert(under, "uint256.SubOverflow")
	zzverif.Assert(u.LtUint64(1001) && !u.GtUint64(1000) && new(uint256.Int).Lsh(uint256.NewInt(1), 70).Gt(u), "uint256 uint64 comparisons / Lsh")
	u64, ovf := new(uint256.Int).Lsh(uint256.NewInt(1), 70).Uint64WithOverflow()
	zzverif.Assert(ovf && u64 == 0, "uint256.Uint64WithOverflow")
	b32 := uint256.NewInt(258).Bytes32()
	zzverif.Assert(b32[31] == 2 && b32[30] == 1 && b32[0] == 0, "uint256.Bytes32")
	d, derr := uint256.FromDecimal("12345")
	zzverif.Assert(derr == nil && d.Uint64() == 12345 && d.Dec() == "12345", "uint256 decimal round trip")
	zzverif.Assert(new(uint256.Int).Not(uint256.NewInt(0)).Eq(new(uint256.Int).SetAllOne()), "uint256.Not / SetAllOne")
	zzverif.Assert(new(uint256.Int).Exp(uint256.NewInt(10), uint256.NewInt(18)).Eq(uint256.MustFromDecimal("1000000000000000000")), "uint256.Exp")
	// sync / atomic
	var once sync.Once
	cnt := 0
	once.Do(func() { cnt++ })
	once.Do(func() { cnt++ })
	var ai int64
	atomic.AddInt64(&ai, 3)
	var wg sync.WaitGroup
	wg.Add(1)
	wg.Done()
	wg.Wait()
	zzverif.Assert(cnt == 1 && atomic.LoadInt64(&ai) == 3, "sync.Once / atomic / WaitGroup")
	// maps and closures
	m := map[string]int64{"a": x, "b": y}
	sum := int64(0)
	for _, v := range m {
		sum += v
	}
	delete(m, "a")
	_, has := m["a"]
	zzverif.Assert(sum == x+y && !has && len(m) == 1, "map range / delete")
	zzverif.Reach("lib end")
}

type zzShape interface{ Area() int64 }
type zzSq struct{ s int64 }

func (q zzSq) Area() int64 { return q.s * q.s }

func zzMax[T int | int64](a, b T) T {
	if a > b {
		return a
	}
	return b
}

func ZZ_Lib2() {
	x := zzverif.NondetI64In("x", 0, 1000)
	// strings.Builder / bytes.Buffer
	var sb strings.Builder
	sb.WriteString("ab")
	sb.WriteByte('c')
	zzverif.Assert(sb.String() == "abc" && sb.Len() == 3, "strings.Builder")
	var bb bytes.Buffer
	bb.Write([]byte{1, 2})
	bb.WriteByte(3)
	zzverif.Assert(bb.Len() == 3 && bytes.Equal(bb.Bytes(), []byte{1, 2, 3}), "bytes.Buffer")
	// generics, interfaces, type switches, method values
	zzverif.Assert(zzMax(x, 1001) == 1001 && zzMax(3, 2) == 3, "generic function")
	var sh zzShape = zzSq{x}
	f := sh.Area
	switch v := sh.(type) {
	case zzSq:
		zzverif.Assert(v.s == x && f() == x*x, "type switch / method value")
	default:
		zzverif.Assert(false, "type switch")
	}
	// defer order, recover, named results
	order := ""
	func() {
		defer func() { order += "1" }()
		defer func() { order += "2" }()
	}()
	got := func() (r int) {
		defer func() {
			if recover() != nil {
				r = 7
			}
		}()
		var p *zzSq
		return int(p.s)
	}()
	zzverif.Assert(order == "21" && got == 7, "defer order / recover from nil dereference")
	// channels (same goroutine), labelled loops, copy/append aliasing
	ch := make(chan int64, 2)
	ch <- x
	ch <- 5
	close(ch)
	tot := int64(0)
	for v := range ch {
		tot += v
	}
	zzverif.Assert(tot == x+5, "buffered channel")
	cnt := 0
outer:
	for i := 0; i < 3; i++ {
		for j := 0; j < 3; j++ {
			if j == 2 {
				continue outer
			}
			if i == 2 {
				break outer
			}
			cnt++
		}
	}
	zzverif.Assert(cnt == 4, "labelled break / continue")
	a := []int64{1, 2, 3}
	b := append(a[:1], 9)
	zzverif.Assert(a[1] == 9 && len(b) == 2 && cap(b) == 3, "append aliasing")
	c := make([]int64, 2)
	nc := copy(c, a)
	zzverif.Assert(nc == 2 && c[1] == 9, "copy")
	// arrays as values, struct comparison, map of structs
	type key struct{ a, b int }
	mk := map[key]string{{1, 2}: "x"}
	arr := [3]int{1, 2, 3}
	arr2 := arr
	arr2[0] = 9
	zzverif.Assert(mk[key{1, 2}] == "x" && arr[0] == 1 && arr2 != arr, "struct keys / array value semantics")
	// integer conversions and wrap-around on symbolic values
	u8 := uint8(x)
	zzverif.Assert(int64(u8) == x%256, "narrowing conversion of a symbolic value")
	i32 := int32(x) * 3
	zzverif.Assert(int64(i32) == 3*x, "int32 arithmetic")
	zzverif.Reach("lib2 end")
}
