// Package zzverif is the harness runtime (DESIGN §2.5).  Under the symbolic
// executor every function below is intercepted by name; compiled natively the
// same functions read the solver's assignment from $VERIF_MODEL so that the
// harness itself is the replay test.
package zzverif

import (
	"runtime"
	"time"
	"encoding/json"
	"fmt"
	"math/big"
	"os"
	"sync"

	"github.com/holiman/uint256"
)

type state struct {
	Model  map[string]string `json:"model"`
	loaded bool
	counts map[string]int

	AssertFailed []string `json:"assert_failed"`
	Reached      []string `json:"reached"`
	Events       []string `json:"events"`
	AssumeFailed bool     `json:"assume_failed"`
	Panicked     string   `json:"panicked"`
	KnownHit     []string `json:"known_hit"`
	KnownFailed  []string `json:"known_failed"`
	tmp          []string
}

var (
	st state
	mu sync.Mutex
)

type assumeFailed struct{}

func load() {
	if st.loaded {
		return
	}
	st.loaded = true
	st.counts = map[string]int{}
	st.Model = map[string]string{}
	if p := os.Getenv("VERIF_MODEL"); p != "" {
		bz, err := os.ReadFile(p)
		if err != nil {
			panic(err)
		}
		var f struct {
			Model map[string]string `json:"model"`
		}
		if err := json.Unmarshal(bz, &f); err != nil {
			panic(err)
		}
		if f.Model != nil {
			st.Model = f.Model
		}
	}
}

func lookup(name string) *big.Int {
	mu.Lock()
	defer mu.Unlock()
	load()
	n := st.counts[name]
	st.counts[name] = n + 1
	key := name
	if n > 0 {
		key = fmt.Sprintf("%s#%d", name, n)
	}
	v, ok := st.Model[key]
	if !ok {
		return new(big.Int)
	}
	b, ok := new(big.Int).SetString(v, 10)
	if !ok {
		panic("zzverif: bad model value for " + key + ": " + v)
	}
	return b
}

// Symbolic reports whether the harness runs under the symbolic executor.
func Symbolic() bool { return false }

func NondetU64(name string) uint64 { return lookup(name).Uint64() }
func NondetI64(name string) int64  { return lookup(name).Int64() }
func NondetI32(name string) int32  { return int32(lookup(name).Int64()) }
func NondetU32(name string) uint32 { return uint32(lookup(name).Uint64()) }
func NondetU8(name string) uint8   { return uint8(lookup(name).Uint64()) }
func NondetI8(name string) int8    { return int8(lookup(name).Int64()) }
func NondetInt(name string) int    { return int(lookup(name).Int64()) }
func NondetBool(name string) bool  { return lookup(name).Sign() != 0 }
func NondetU256(name string) *uint256.Int {
	v, overflow := uint256.FromBig(lookup(name))
	if overflow {
		panic("zzverif: u256 overflow in model")
	}
	return v
}

// Choose returns a value in [0,n): a forked choice under the executor.
func Choose(name string, n int) int {
	v := int(lookup(name).Int64())
	if v < 0 || v >= n {
		v = 0
	}
	return v
}

func Assume(b bool) {
	if !b {
		mu.Lock()
		st.AssumeFailed = true
		mu.Unlock()
		panic(assumeFailed{})
	}
}

func Assert(b bool, label string) {
	if !b {
		mu.Lock()
		hit := false
		for id, on := range knownActive {
			if on {
				hit = true
				st.KnownHit = append(st.KnownHit, id)
				st.KnownFailed = append(st.KnownFailed, id+": "+label)
			}
		}
		if !hit {
			st.AssertFailed = append(st.AssertFailed, label)
		}
		mu.Unlock()
	}
}

var knownActive = map[string]bool{}

func Reach(label string) {
	mu.Lock()
	st.Reached = append(st.Reached, label)
	mu.Unlock()
}

// Known marks the current inputs as belonging to known-finding class id when b holds.
func Known(id string, b bool) {
	mu.Lock()
	knownActive[id] = b
	mu.Unlock()
}

func Event(label string, args ...interface{}) {
	s := label
	for _, a := range args {
		s += fmt.Sprintf(" %v", a)
	}
	mu.Lock()
	st.Events = append(st.Events, s)
	mu.Unlock()
}

// TempDir returns a fresh directory (a unique opaque name under the executor).
func TempDir() string {
	d, err := os.MkdirTemp("", "zzverif")
	if err != nil {
		panic(err)
	}
	mu.Lock()
	st.tmp = append(st.tmp, d)
	mu.Unlock()
	return d
}

// Reopen marks a restart point: natively nothing happens (the harness re-runs
// the real constructors on the same directory); the executor drops façades.
func Reopen(dir string) {}

// CopyDir clones a data directory (restart-by-copy natively; same store
// contents under a new name in the executor).
func CopyDir(src string) string {
	dst := TempDir()
	if err := os.CopyFS(dst, os.DirFS(src)); err != nil {
		panic(err)
	}
	return dst
}

// SameBytes compares two byte strings that may be opaque handles under the
// executor (hashes, encoded items).
func SameBytes(a, b []byte) bool {
	if len(a) != len(b) {
		return false
	}
	for i := range a {
		if a[i] != b[i] {
			return false
		}
	}
	return true
}

// Run executes harness natively and writes the outcome to $VERIF_OUT.
// It returns true when the run is a violation (assertion failed or panic).
func Run(harness func()) (violated bool, summary string) {
	func() {
		defer func() {
			if p := recover(); p != nil {
				if _, ok := p.(assumeFailed); ok {
					return
				}
				mu.Lock()
				st.Panicked = fmt.Sprintf("%v", p)
				mu.Unlock()
			}
		}()
		harness()
	}()
	mu.Lock()
	defer mu.Unlock()
	for _, d := range st.tmp {
		os.RemoveAll(d)
	}
	// an assumption that fails AFTER an assertion has already failed does not take the
	// failure back (a counterexample's model only fixes the inputs read up to the
	// assertion; later inputs default to 0 and may miss their declared range)
	if st.AssumeFailed && (len(st.AssertFailed) > 0 || len(st.KnownFailed) > 0) {
		st.AssumeFailed = false
	}
	if p := os.Getenv("VERIF_OUT"); p != "" {
		bz, _ := json.MarshalIndent(&st, "", " ")
		os.WriteFile(p, bz, 0644)
	}
	if st.AssumeFailed {
		return false, "assumption failed (inputs outside the harness precondition)"
	}
	if st.Panicked != "" {
		return true, "panic: " + st.Panicked
	}
	if len(st.AssertFailed) > 0 {
		return true, fmt.Sprintf("assertions failed: %v", st.AssertFailed)
	}
	if len(st.KnownFailed) > 0 {
		return true, fmt.Sprintf("assertions failed inside known-finding classes: %v", st.KnownFailed)
	}
	return false, "ok"
}

// Capture is an io.Writer that records what is written (used by the
// executor's RLP stub; harmless natively).
type Capture struct{ Bufs [][]byte }

func (c *Capture) Write(p []byte) (int, error) {
	c.Bufs = append(c.Bufs, p)
	return len(p), nil
}

// NondetI64In returns a value in [lo,hi] (bounds are part of the variable's
// declaration under the executor: no fork, tight intervals).
func NondetI64In(name string, lo, hi int64) int64 {
	v := NondetI64(name)
	Assume(v >= lo && v <= hi)
	return v
}

func NondetU64In(name string, lo, hi uint64) uint64 {
	v := NondetU64(name)
	Assume(v >= lo && v <= hi)
	return v
}

// NondetU256Below returns a value in [0,bound).
func NondetU256Below(name string, bound *uint256.Int) *uint256.Int {
	v := NondetU256(name)
	Assume(v.Lt(bound))
	return v
}

// RegisterKey tells the executor which address / public key belongs to a
// private key (natively a no-op: the real cryptography is used).
func RegisterKey(privHex string, addr, pub []byte) {}

// SetMapOrder selects the iteration order the executor uses for Go maps from
// now on (0 ascending, 1 descending, 2 rotated); natively Go randomises.
func SetMapOrder(mode int) {}

// Thorough reports whether the check runs in the thorough tier (harnesses
// widen their universes then).
func Thorough() bool { return os.Getenv("VERIF_TIER") == "thorough" }

// PoolFlush empties every sync.Pool (natively: two garbage collections; under the
// executor the model's pools are cleared).  SingleProc pins the native run to one P so
// that the runtime's per-P pool caches behave like the model's single list.
func PoolFlush() {
	runtime.GC()
	runtime.GC()
}

func SingleProc() { runtime.GOMAXPROCS(1) }

// ClockStart / SetClock let a harness drive the node-local wall clock.  Under
// the executor time.Now returns exactly the instant set here (an arbitrary one
// after ClockStart); natively the clock cannot be set, so ClockStart returns
// the current second and SetClock waits until the real clock has reached the
// requested second (harnesses use offsets of a few seconds).
func ClockStart() int64 { return time.Now().Unix() }

func SetClock(sec int64) {
	for time.Now().Unix() < sec {
		time.Sleep(20 * time.Millisecond)
	}
}
