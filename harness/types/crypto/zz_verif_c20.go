package crypto

// C20: the file-backed validator signer never double-signs, across restarts.
// One signing request from an arbitrary last-sign state (inductive step), and
// a two-request bounded run with an optional reload in between.

import (
	"bytes"
	"encoding/hex"
	"os"
	"path/filepath"
	"time"

	"github.com/rigochain/rigo-go/zzverif"
	tmcrypto "github.com/tendermint/tendermint/crypto"
	tmjson "github.com/tendermint/tendermint/libs/json"
	tmproto "github.com/tendermint/tendermint/proto/tendermint/types"
	tmtypes "github.com/tendermint/tendermint/types"
)

// zzKey is a crypto.PrivKey whose "signature" is the signed message itself,
// and which counts how often it is asked to sign.
type zzKey struct {
	signed int
	last   []byte
}

func (k *zzKey) Bytes() []byte { return []byte{1} }
func (k *zzKey) Sign(msg []byte) ([]byte, error) {
	k.signed++
	k.last = msg
	return msg, nil
}
func (k *zzKey) PubKey() tmcrypto.PubKey          { return nil }
func (k *zzKey) Equals(o tmcrypto.PrivKey) bool   { return false }
func (k *zzKey) Type() string                     { return "zz" }

const zzChain = "zz-chain"

var zzT0 = time.Date(2023, 1, 1, 0, 0, 0, 0, time.UTC)

func zzBlockID(i int) tmproto.BlockID {
	if i == 0 {
		return tmproto.BlockID{}
	}
	h := make([]byte, 32)
	h[0] = byte(i)
	ph := make([]byte, 32)
	ph[1] = byte(i)
	return tmproto.BlockID{Hash: h, PartSetHeader: tmproto.PartSetHeader{Total: 1, Hash: ph}}
}

type zzReq struct {
	isProposal bool
	h          int64
	r          int32
	typ        tmproto.SignedMsgType
	bid        int
	ts         int
	polRound   int32
}

func zzNondetReq(tag string) zzReq {
	q := zzReq{}
	q.isProposal = zzverif.Choose(tag+".kind", 3) == 2
	q.h = zzverif.NondetI64In(tag+".height", 1, 1<<40)
	q.r = int32(zzverif.NondetI64In(tag+".round", 0, 1<<20))
	q.typ = tmproto.PrevoteType
	if zzverif.Choose(tag+".precommit", 2) == 1 {
		q.typ = tmproto.PrecommitType
	}
	q.bid = zzverif.Choose(tag+".blockid", 3)
	q.ts = zzverif.Choose(tag+".ts", 2)
	q.polRound = -1
	if zzverif.Thorough() && q.isProposal {
		q.polRound = int32(zzverif.NondetI64In(tag+".polRound", -1, 1<<20))
	}
	return q
}

func (q zzReq) step() int8 {
	if q.isProposal {
		return stepPropose
	}
	if q.typ == tmproto.PrevoteType {
		return stepPrevote
	}
	return stepPrecommit
}

func (q zzReq) vote() *tmproto.Vote {
	return &tmproto.Vote{Type: q.typ, Height: q.h, Round: q.r, BlockID: zzBlockID(q.bid), Timestamp: zzT0.Add(time.Duration(q.ts) * time.Second)}
}
func (q zzReq) proposal() *tmproto.Proposal {
	return &tmproto.Proposal{Type: tmproto.ProposalType, Height: q.h, Round: q.r, PolRound: q.polRound, BlockID: zzBlockID(q.bid), Timestamp: zzT0.Add(time.Duration(q.ts) * time.Second)}
}
func (q zzReq) signBytes() []byte {
	if q.isProposal {
		return tmtypes.ProposalSignBytes(zzChain, q.proposal())
	}
	return tmtypes.VoteSignBytes(zzChain, q.vote())
}
func (q zzReq) sameUpToTimestamp(o zzReq) bool {
	return q.isProposal == o.isProposal && q.h == o.h && q.r == o.r && (q.isProposal || q.typ == o.typ) && q.bid == o.bid && q.polRound == o.polRound
}

// lexicographic comparison of (h,r,s): -1,0,1
func zzCmpHRS(h1 int64, r1 int32, s1 int8, h2 int64, r2 int32, s2 int8) int {
	if h1 != h2 {
		if h1 < h2 {
			return -1
		}
		return 1
	}
	if r1 != r2 {
		if r1 < r2 {
			return -1
		}
		return 1
	}
	if s1 != s2 {
		if s1 < s2 {
			return -1
		}
		return 1
	}
	return 0
}

func zzLoadState(path string) *SFilePVLastSignState {
	bz, err := os.ReadFile(path)
	if err != nil {
		return nil
	}
	st := &SFilePVLastSignState{}
	if err := tmjson.Unmarshal(bz, st); err != nil {
		return nil
	}
	return st
}

func zzSameState(a, b *SFilePVLastSignState) bool {
	return a.Height == b.Height && a.Round == b.Round && a.Step == b.Step &&
		zzverif.SameBytes(a.Signature, b.Signature) && zzverif.SameBytes(a.SignBytes, b.SignBytes)
}

// sign performs one request; returns (error?, released signature, timestamp index unchanged?)
func zzSign(pv *SFilePV, q zzReq) (err error, sig []byte, ts time.Time, panicked bool) {
	defer func() {
		if p := recover(); p != nil {
			panicked = true
		}
	}()
	if q.isProposal {
		p := q.proposal()
		err = pv.SignProposal(zzChain, p)
		return err, p.Signature, p.Timestamp, false
	}
	v := q.vote()
	err = pv.SignVote(zzChain, v)
	return err, v.Signature, v.Timestamp, false
}

func zzNewPV(dir string, key *zzKey, good bool) *SFilePV {
	statePath := filepath.Join(dir, "state.json")
	if !good {
		statePath = "/nonexistent/zzverif/state.json"
	}
	pv := &SFilePV{Key: SFilePVKey{PrivKey: key, filePath: filepath.Join(dir, "key.json")},
		LastSignState: SFilePVLastSignState{Step: stepNone, filePath: statePath}}
	return pv
}

// ZZ_C20_Step: one request from an arbitrary last-sign state.
func ZZ_C20_Step() {
	dir := zzverif.TempDir()
	key := &zzKey{}
	diskOK := zzverif.Choose("disk.ok", 2) == 1
	pv := zzNewPV(dir, key, true)
	// arbitrary previous state: nothing signed yet, or the record of a request m0
	var m0 zzReq
	has := zzverif.Choose("has.last", 2) == 1
	if has {
		m0 = zzNondetReq("last")
		sb := m0.signBytes()
		pv.LastSignState.Height, pv.LastSignState.Round, pv.LastSignState.Step = m0.h, m0.r, m0.step()
		pv.LastSignState.SignBytes, pv.LastSignState.Signature = sb, sb
		pv.LastSignState.Save()
	} else {
		pv.LastSignState.Save()
	}
	if !diskOK {
		pv.LastSignState.filePath = "/nonexistent/zzverif/state.json"
	}
	pre := pv.LastSignState
	q := zzNondetReq("req")
	err, sig, ts, panicked := zzSign(pv, q)
	cmp := 1
	if has {
		cmp = zzCmpHRS(q.h, q.r, q.step(), m0.h, m0.r, m0.step())
	}
	if panicked {
		// the only legitimate reason: the state could not be made durable
		zzverif.Assert(!diskOK, "no panic while the state file is writable")
		zzverif.Assert(key.signed <= 1, "at most one signature computed")
		zzverif.Reach("Step save failed")
		return
	}
	switch {
	case cmp > 0:
		if err == nil {
			zzverif.Assert(key.signed == 1, "(1) a new height/round/step is signed exactly once")
			zzverif.Assert(zzverif.SameBytes(sig, q.signBytes()), "(1) the released signature is over the request")
			zzverif.Assert(diskOK, "(4) a signature is released only after the record was made durable")
		}
		zzverif.Assert(err == nil, "(1) progress is never refused")
	case cmp == 0:
		zzverif.Assert(key.signed == 0, "(2) nothing new is signed at an already signed height/round/step")
		if err == nil {
			zzverif.Assert(q.sameUpToTimestamp(m0), "(2) a stored signature is re-released only for the same message up to timestamp")
			zzverif.Assert(zzverif.SameBytes(sig, pre.Signature), "(2) the re-released signature is the original one")
			zzverif.Assert(ts.Equal(zzT0.Add(time.Duration(m0.ts)*time.Second)), "(2) the original timestamp is restored")
		} else {
			zzverif.Assert(!q.sameUpToTimestamp(m0), "(2) the same message (up to timestamp) is answered with the original signature")
			zzverif.Assert(sig == nil, "(3) conflicting data: no signature released")
		}
	default:
		zzverif.Assert(err != nil, "(3) height/round/step regression is refused")
		zzverif.Assert(key.signed == 0 && sig == nil, "(3) regression: nothing signed, nothing released")
	}
	if err != nil {
		zzverif.Assert(zzSameState(&pv.LastSignState, &pre), "(3) refused request leaves the state unchanged")
	}
	// (4) in-memory record == durable record, so a restart between two
	// requests is the identity
	if diskOK {
		disk := zzLoadState(filepath.Join(dir, "state.json"))
		zzverif.Assert(disk != nil, "(4) the state file is readable")
		if disk != nil {
			zzverif.Assert(zzSameState(disk, &pv.LastSignState), "(4) in-memory last-sign state equals the durable one")
		}
	}
	if err == nil && cmp > 0 {
		zzverif.Assert(pv.LastSignState.Height == q.h && pv.LastSignState.Round == q.r && pv.LastSignState.Step == q.step(), "(1) the record advances to the signed height/round/step")
	}
	zzverif.Event("Step", has, cmp, err == nil, key.signed)
	zzverif.Reach("Step end")
}

// ZZ_C20_Two: two requests from the initial state with an optional restart
// (reload from the state file) in between: never two different messages
// signed at one height/round/step, never a signature below an earlier one.
func ZZ_C20_Two() {
	dir := zzverif.TempDir()
	key := &zzKey{}
	pv := zzNewPV(dir, key, true)
	pv.LastSignState.Save()
	q1 := zzNondetReq("q1")
	err1, sig1, _, p1 := zzSign(pv, q1)
	zzverif.Assert(!p1 && err1 == nil && sig1 != nil, "first request from the initial state is signed")
	if zzverif.Choose("restart", 2) == 1 {
		st := zzLoadState(filepath.Join(dir, "state.json"))
		zzverif.Assert(st != nil, "state file readable after the first signature")
		if st == nil {
			return
		}
		key2 := &zzKey{signed: key.signed}
		pv = zzNewPV(dir, key2, true)
		st.filePath = pv.LastSignState.filePath
		pv.LastSignState = *st
		key = key2
	}
	before := key.signed
	q2 := zzNondetReq("q2")
	err2, sig2, _, p2 := zzSign(pv, q2)
	zzverif.Assert(!p2, "second request does not panic")
	cmp := zzCmpHRS(q2.h, q2.r, q2.step(), q1.h, q1.r, q1.step())
	if key.signed > before {
		zzverif.Assert(cmp > 0, "a second signature is computed only above the first one")
	}
	if err2 == nil && cmp == 0 {
		zzverif.Assert(bytes.Equal(sig2, sig1) || zzverif.SameBytes(sig2, sig1), "same height/round/step: only the original signature is handed out")
		zzverif.Assert(q2.sameUpToTimestamp(q1), "same height/round/step: only for the same message up to timestamp")
	}
	if cmp < 0 {
		zzverif.Assert(err2 != nil && sig2 == nil, "nothing is released below the first signature")
	}
	zzverif.Reach("Two end")
}

// ZZ_C20_Restart: the signer as the node uses it - LoadOrGenSFilePV on the key
// and state files (no passphrase) - with one or two process restarts between
// two signing requests and nothing signed in between.
func ZZ_C20_Restart() {
	zzverif.RegisterKey("0000000000000000000000000000000000000000000000000000000000002eef",
		zzHex("AD688E4DD5622F65C5639CB6F7B2C92C259670A8"), zzHex("038A4A7B6C3B598E42851B0913209A95FDEDF0F8BE6F152B331DAC61A26F9B6997"))
	dir := zzverif.TempDir()
	keyF, stF := filepath.Join(dir, "key.json"), filepath.Join(dir, "state.json")
	pv := LoadOrGenSFilePV(keyF, stF, nil)
	q1 := zzNondetReq("q1")
	err1, sig1, _, p1 := zzSign(pv, q1)
	zzverif.Assert(!p1 && err1 == nil && sig1 != nil, "first request after key generation is signed")
	restarts := 1 + zzverif.Choose("restarts", 2)
	for i := 0; i < restarts; i++ {
		pv = LoadOrGenSFilePV(keyF, stF, nil)
		zzverif.Assert(pv.LastSignState.Height == q1.h && pv.LastSignState.Round == q1.r && pv.LastSignState.Step == q1.step(),
			"every restart finds the last-signed record on disk")
	}
	q2 := zzNondetReq("q2")
	err2, sig2, _, p2 := zzSign(pv, q2)
	zzverif.Assert(!p2, "second request does not panic")
	cmp := zzCmpHRS(q2.h, q2.r, q2.step(), q1.h, q1.r, q1.step())
	if cmp < 0 {
		zzverif.Assert(err2 != nil && sig2 == nil, "after restarts: nothing is released below the last signature")
	}
	if cmp == 0 {
		if err2 == nil {
			zzverif.Assert(zzverif.SameBytes(sig2, sig1), "after restarts: same height/round/step returns the original signature only")
			zzverif.Assert(q2.sameUpToTimestamp(q1), "after restarts: only for the same message up to timestamp")
		} else {
			zzverif.Assert(!q2.sameUpToTimestamp(q1), "after restarts: the same message is answered with the original signature")
		}
	}
	if cmp > 0 {
		zzverif.Assert(err2 == nil && sig2 != nil, "after restarts: progress is signed")
	}
	zzverif.Reach("Restart end")
}

func zzHex(s string) []byte {
	b, err := hex.DecodeString(s)
	if err != nil {
		panic(err)
	}
	return b
}
