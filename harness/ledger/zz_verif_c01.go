package ledger

// C01 (ledger part): Commit writes in an order that does not depend on Go's
// map iteration order; LedgerKeyList.Less is a strict total order.

import (
	"sort"

	"github.com/rigochain/rigo-go/zzverif"
)

// ZZ_C01_D1 is run with map-iteration order as a forked choice (independent
// per replica): two ledgers receive the same updates/removals and must commit
// the same root hash.
func ZZ_C01_D1() {
	la, lb := zzNewLedger(zzverif.TempDir()), zzNewLedger(zzverif.TempDir())
	n := 1 + zzverif.Choose("nitems", 3)
	vals := make([]int64, n)
	for i := range vals {
		vals[i] = zzverif.NondetI64("val")
	}
	for _, l := range []*FinalityLedger[*zzItem]{la, lb} {
		for i := 0; i < n; i++ {
			_ = l.SetFinality(&zzItem{K: byte(i), V: vals[i]})
		}
	}
	ha, va, xa := la.Commit()
	hb, vb, xb := lb.Commit()
	zzverif.Assert(xa == nil && xb == nil && va == vb, "D1 both replicas commit version 1")
	zzverif.Assert(zzverif.SameBytes(ha, hb), "D1 same root hash whatever the map iteration order")
	if n == 3 {
		// bound: with 3 items only the first commit is explored (6^4 orders)
		zzverif.Reach("D1 end")
		return
	}
	// second block: update some, remove one, re-create it
	upd := zzverif.Choose("second.kind", 3)
	for _, l := range []*FinalityLedger[*zzItem]{la, lb} {
		for i := 0; i < n; i++ {
			_ = l.SetFinality(&zzItem{K: byte(i), V: vals[i] + 1})
		}
		if upd >= 1 {
			_, _ = l.DelFinality(zzKey(0))
		}
		if upd == 2 {
			_ = l.SetFinality(&zzItem{K: 0, V: 7})
		}
	}
	ha, _, _ = la.Commit()
	hb, _, _ = lb.Commit()
	zzverif.Assert(zzverif.SameBytes(ha, hb), "D1 same root hash after updates / removal / re-creation")
	if zzverif.Choose("third.block", 2) == 1 {
		// grow the tree one item per block (one dirty key per commit), then remove
		// two items in one block: the removals reach the tree in call order
		// (5 items: in the real IAVL the shape after removing these pairs depends on the order)
		for k := n; k < 5; k++ {
			for _, l := range []*FinalityLedger[*zzItem]{la, lb} {
				_ = l.SetFinality(&zzItem{K: byte(k), V: int64(k)})
				_, _, _ = l.Commit()
			}
		}
		pairs := [][2]int{{0, 3}, {0, 4}, {1, 3}, {1, 4}}
		pr := pairs[zzverif.Choose("remove.pair", len(pairs))]
		for _, l := range []*FinalityLedger[*zzItem]{la, lb} {
			_, _ = l.DelFinality(zzKey(pr[0]))
			_, _ = l.DelFinality(zzKey(pr[1]))
		}
		ha, _, _ = la.Commit()
		hb, _, _ = lb.Commit()
		zzverif.Assert(zzverif.SameBytes(ha, hb), "D1 same root hash after two removals in one block")
		zzverif.Reach("D1 two removals")
	}
	zzverif.Reach("D1 end")
}

// ZZ_C01_D3: LedgerKeyList.Less on keys with symbolic leading bytes.
func ZZ_C01_D3() {
	var ks LedgerKeyList
	for i := 0; i < 3; i++ {
		var k LedgerKey
		k[0] = zzverif.NondetU8("k.b0")
		k[1] = zzverif.NondetU8("k.b1")
		k[31] = byte(zzverif.Choose("k.b31", 2))
		ks = append(ks, k)
	}
	for i := 0; i < 3; i++ {
		zzverif.Assert(!ks.Less(i, i), "D3 irreflexive")
		for j := 0; j < 3; j++ {
			if i == j {
				continue
			}
			if ks[i] != ks[j] {
				zzverif.Assert(ks.Less(i, j) != ks.Less(j, i), "D3 total and asymmetric on distinct keys")
			} else {
				zzverif.Assert(!ks.Less(i, j) && !ks.Less(j, i), "D3 equal keys are not ordered")
			}
			for l := 0; l < 3; l++ {
				if ks.Less(i, j) && ks.Less(j, l) {
					zzverif.Assert(ks.Less(i, l), "D3 transitive")
				}
			}
		}
	}
	// sorting any permutation gives the same sequence
	a := append(LedgerKeyList{}, ks...)
	b := LedgerKeyList{ks[2], ks[0], ks[1]}
	sort.Sort(a)
	sort.Sort(b)
	for i := range a {
		zzverif.Assert(a[i] == b[i], "D3 sort result independent of input order")
	}
	zzverif.Reach("D3 end")
}
