package ledger

// C18: FinalityLedger / SimpleLedger / memItems against an overlayed-map
// reference model.  The operation sequence is a forked choice, item values
// are symbolic; the oracle encodes only what the property statement fixes.

import (
	"encoding/json"

	"github.com/rigochain/rigo-go/types/xerrors"
	"github.com/rigochain/rigo-go/zzverif"
)

type zzItem struct {
	K byte  `json:"k"`
	V int64 `json:"v"`
}

func (it *zzItem) Key() LedgerKey {
	var k LedgerKey
	k[0] = 0x10 + it.K
	k[31] = it.K
	return k
}
func (it *zzItem) Encode() ([]byte, xerrors.XError) {
	bz, err := json.Marshal(it)
	if err != nil {
		return nil, xerrors.From(err)
	}
	return bz, nil
}
func (it *zzItem) Decode(bz []byte) xerrors.XError {
	if err := json.Unmarshal(bz, it); err != nil {
		return xerrors.From(err)
	}
	return nil
}

func zzKey(k int) LedgerKey { return (&zzItem{K: byte(k)}).Key() }

type zzEntry struct {
	present bool  // false = deleted in this overlay
	v       int64
}

type zzModel struct {
	committed []map[int]int64 // index = version (0 = empty)
	cons      map[int]zzEntry
	mem       map[int]zzEntry
	memFuzzy  map[int]bool // mempool view of the key is not fixed by the statement until the next commit
}

func (m *zzModel) latest() map[int]int64 { return m.committed[len(m.committed)-1] }

func (m *zzModel) consView(k int) (int64, bool) {
	if e, ok := m.cons[k]; ok {
		return e.v, e.present
	}
	v, ok := m.latest()[k]
	return v, ok
}

func (m *zzModel) memView(k int) (int64, bool) {
	if e, ok := m.mem[k]; ok {
		return e.v, e.present
	}
	v, ok := m.latest()[k]
	return v, ok
}

func zzNewLedger(dir string) *FinalityLedger[*zzItem] {
	l, xerr := NewFinalityLedger[*zzItem]("zzc18", dir, 16, func() *zzItem { return &zzItem{} })
	if xerr != nil {
		panic(xerr)
	}
	return l
}

func zzCheckItem(it *zzItem, xerr xerrors.XError, wantV int64, wantOK bool, what string) {
	if wantOK {
		zzverif.Assert(xerr == nil && it != nil, what+": present item is found")
		if xerr == nil && it != nil {
			zzverif.Assert(it.V == wantV, what+": value is the latest write")
		}
	} else {
		zzverif.Assert(xerr != nil, what+": absent/deleted item is not found")
	}
}

func zzC18(nsteps, nkeys int, withReopen, preseed bool) { zzC18x(nsteps, nkeys, withReopen, preseed, false) }

func zzC18x(nsteps, nkeys int, withReopen, preseed, withCancel bool) {
	dir := zzverif.TempDir()
	l := zzNewLedger(dir)
	m := &zzModel{committed: []map[int]int64{{}}, cons: map[int]zzEntry{}, mem: map[int]zzEntry{}, memFuzzy: map[int]bool{}}
	if preseed {
		// version 1 already holds key 0 (with a symbolic value)
		v0 := zzverif.NondetI64("seed.val")
		if l.SetFinality(&zzItem{K: 0, V: v0}) != nil {
			panic("seed")
		}
		if _, _, xerr := l.Commit(); xerr != nil {
			panic(xerr)
		}
		m.committed = append(m.committed, map[int]int64{0: v0})
	}
	nops := 9
	if withReopen || withCancel {
		nops = 10
	}
	if withCancel {
		nops = 14
	}
	// number of pending changes per key and overlay since the last commit: the
	// statement fixes what a cancel does only when it undoes the single pending
	// change of that key ("the overlay entry goes away"); anything else ends the path
	consOps := map[int]int{}
	memOps := map[int]int{}
	memTaint := map[int]bool{} // a consensus delete touched the mempool overlay of this key since the last commit
	for step := 0; step < nsteps; step++ {
		op := zzverif.Choose("op", nops)
		if op == 9 && !withReopen {
			op = 7
		}
		k := 0
		if op != 7 && op != 9 {
			k = zzverif.Choose("key", nkeys)
		}
		switch op {
		case 0: // SetFinality
			v := zzverif.NondetI64("val")
			zzverif.Assert(l.SetFinality(&zzItem{K: byte(k), V: v}) == nil, "SetFinality succeeds")
			m.cons[k] = zzEntry{true, v}
			consOps[k]++
		case 1: // GetFinality
			it, xerr := l.GetFinality(zzKey(k))
			wv, wok := m.consView(k)
			zzCheckItem(it, xerr, wv, wok, "GetFinality")
		case 2: // DelFinality
			it, xerr := l.DelFinality(zzKey(k))
			wv, wok := m.consView(k)
			zzCheckItem(it, xerr, wv, wok, "DelFinality")
			if wok {
				m.cons[k] = zzEntry{present: false}
				consOps[k]++
			}
			m.memFuzzy[k] = true // the implementation also drops it from the mempool view
			memTaint[k] = true
		case 3: // Set (mempool overlay)
			v := zzverif.NondetI64("val")
			zzverif.Assert(l.Set(&zzItem{K: byte(k), V: v}) == nil, "Set succeeds")
			m.mem[k] = zzEntry{true, v}
			memOps[k]++
			if m.memFuzzy[k] {
				// a consensus delete was leaked into this view before; after a
				// fresh write the view is determined again only if re-creation works
				delete(m.memFuzzy, k)
			}
		case 4: // Get (mempool view)
			it, xerr := l.Get(zzKey(k))
			if !m.memFuzzy[k] {
				wv, wok := m.memView(k)
				zzCheckItem(it, xerr, wv, wok, "Get")
			}
		case 5: // Del (mempool overlay)
			it, xerr := l.Del(zzKey(k))
			if !m.memFuzzy[k] {
				wv, wok := m.memView(k)
				zzCheckItem(it, xerr, wv, wok, "Del")
				if wok {
					m.mem[k] = zzEntry{present: false}
					memOps[k]++
				}
			} else if xerr == nil {
				memOps[k]++
				m.mem[k] = zzEntry{present: false}
				delete(m.memFuzzy, k)
			}
		case 6: // Read = last commit, no overlay
			it, xerr := l.Read(zzKey(k))
			wv, wok := m.latest()[k]
			zzCheckItem(it, xerr, wv, wok, "Read")
		case 7: // Commit
			_, ver, xerr := l.Commit()
			zzverif.Assert(xerr == nil, "Commit succeeds")
			zzverif.Assert(ver == int64(len(m.committed)), "Commit returns the next version number")
			next := map[int]int64{}
			for kk, vv := range m.latest() {
				next[kk] = vv
			}
			for kk, e := range m.cons {
				if e.present {
					next[kk] = e.v
				} else {
					delete(next, kk)
				}
			}
			m.committed = append(m.committed, next)
			m.cons = map[int]zzEntry{}
			m.mem = map[int]zzEntry{}
			m.memFuzzy = map[int]bool{}
			consOps = map[int]int{}
			memOps = map[int]int{}
			memTaint = map[int]bool{}
			zzverif.Assert(l.Version() == ver, "Version() is the committed version")
		case 8: // historical read
			if len(m.committed) > 1 {
				ver := 1 + zzverif.Choose("ver", len(m.committed)-1)
				il, xerr := l.ImmutableLedgerAt(int64(ver), 0)
				zzverif.Assert(xerr == nil, "ImmutableLedgerAt(existing version) succeeds")
				if xerr == nil {
					wv, wok := m.committed[ver][k]
					switch zzverif.Choose("hist.access", 3) {
					case 0:
						it, xerr := il.Read(zzKey(k))
						zzCheckItem(it, xerr, wv, wok, "historical Read")
					case 1:
						// Get on the historical view: the committed value of that version,
						// whatever is pending in the live ledger's overlays
						it, xerr := il.Get(zzKey(k))
						zzCheckItem(it, xerr, wv, wok, "historical Get")
					case 2:
						// a write on the (throw-away) historical view stays there
						_ = il.Set(&zzItem{K: byte(k), V: zzverif.NondetI64("hist.val")})
					}
					// the live mempool view is untouched by any access to a historical view
					if !m.memFuzzy[k] {
						it, xerr := l.Get(zzKey(k))
						mv, mok := m.memView(k)
						zzCheckItem(it, xerr, mv, mok, "Get after historical access")
					}
				}
			} else {
				_, xerr := l.ImmutableLedgerAt(1, 0)
				zzverif.Assert(xerr != nil, "ImmutableLedgerAt(future version) fails")
			}
		case 9: // close and reopen: overlays are process state and vanish
			zzverif.Assert(l.Close() == nil, "Close succeeds")
			l = zzNewLedger(dir)
			m.cons = map[int]zzEntry{}
			m.mem = map[int]zzEntry{}
			m.memFuzzy = map[int]bool{}
			consOps = map[int]int{}
			memOps = map[int]int{}
			memTaint = map[int]bool{}
			zzverif.Assert(l.Version() == int64(len(m.committed)-1), "reopened ledger is at the last committed version")
		case 10, 11: // CancelSetFinality / CancelDelFinality
			e, pending := m.cons[k]
			if pending && (consOps[k] != 1 || e.present != (op == 10)) {
				zzverif.Reach("C18 cancel outside the statement")
				_ = l.Close()
				return
			}
			if op == 10 {
				zzverif.Assert(l.CancelSetFinality(zzKey(k)) == nil, "CancelSetFinality succeeds")
			} else {
				zzverif.Assert(l.CancelDelFinality(zzKey(k)) == nil, "CancelDelFinality succeeds")
			}
			if pending {
				delete(m.cons, k)
				consOps[k] = 0
				zzverif.Reach("C18 cancel undoes the pending change")
			}
			it, xerr := l.GetFinality(zzKey(k))
			wv, wok := m.consView(k)
			zzCheckItem(it, xerr, wv, wok, "GetFinality after cancel")
		case 12, 13: // CancelSet / CancelDel (mempool overlay)
			e, pending := m.mem[k]
			if m.memFuzzy[k] || memTaint[k] || (pending && (memOps[k] != 1 || e.present != (op == 12))) {
				zzverif.Reach("C18 cancel outside the statement")
				_ = l.Close()
				return
			}
			if op == 12 {
				zzverif.Assert(l.CancelSet(zzKey(k)) == nil, "CancelSet succeeds")
			} else {
				zzverif.Assert(l.CancelDel(zzKey(k)) == nil, "CancelDel succeeds")
			}
			if pending {
				delete(m.mem, k)
				memOps[k] = 0
				zzverif.Reach("C18 cancel undoes the pending change")
			}
			it, xerr := l.Get(zzKey(k))
			wv, wok := m.memView(k)
			zzCheckItem(it, xerr, wv, wok, "Get after cancel")
		}
	}
	// final sweep: every view of every key, every historical version
	for k := 0; k < nkeys; k++ {
		it, xerr := l.GetFinality(zzKey(k))
		wv, wok := m.consView(k)
		zzCheckItem(it, xerr, wv, wok, "final GetFinality")
		it, xerr = l.Read(zzKey(k))
		wv, wok = m.latest()[k]
		zzCheckItem(it, xerr, wv, wok, "final Read")
		if !m.memFuzzy[k] {
			it, xerr = l.Get(zzKey(k))
			wv, wok = m.memView(k)
			zzCheckItem(it, xerr, wv, wok, "final Get")
		}
		for ver := 1; ver < len(m.committed); ver++ {
			il, xerr := l.ImmutableLedgerAt(int64(ver), 0)
			zzverif.Assert(xerr == nil, "final ImmutableLedgerAt succeeds")
			if xerr != nil {
				continue
			}
			it, xerr := il.Read(zzKey(k))
			wv, wok := m.committed[ver][k]
			zzCheckItem(it, xerr, wv, wok, "final historical Read")
		}
	}
	// commit once more: the consensus overlay's net effect becomes the next version
	_, ver, xerr := l.Commit()
	zzverif.Assert(xerr == nil && ver == int64(len(m.committed)), "final Commit")
	n := 0
	_ = l.IterateReadAllFinalityItems(func(it *zzItem) xerrors.XError {
		n++
		e, ok := m.cons[int(it.K)]
		if ok {
			zzverif.Assert(e.present && e.v == it.V, "final Commit persisted the overlay value")
		} else {
			v, ok2 := m.latest()[int(it.K)]
			zzverif.Assert(ok2 && v == it.V, "final Commit kept the untouched value")
		}
		return nil
	})
	want := 0
	for k := 0; k < nkeys; k++ {
		if _, ok := m.consView(k); ok {
			want++
		}
	}
	zzverif.Assert(n == want, "final Commit persisted exactly the net effect (item count)")
	zzverif.Event("C18", nsteps, len(m.committed), n)
	_ = l.Close()
	zzverif.Reach("C18 end")
}

func ZZ_C18_Seq3()  { zzC18(3, 2, true, false) }
func ZZ_C18_Seq3b() { zzC18(3, 2, true, true) }
func ZZ_C18_Seq4()  { zzC18(4, 2, true, false) }
func ZZ_C18_Seq4b() { zzC18(4, 2, false, true) }
func ZZ_C18_Seq5()  { zzC18(5, 2, false, false) }

// with the four Cancel* operations (operation alphabet of 13)
func ZZ_C18_Seq3c() { zzC18x(3, 2, false, true, true) }
func ZZ_C18_Seq4c() { zzC18x(4, 2, false, true, true) }
