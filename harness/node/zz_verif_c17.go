package node

// C17 (partial, see DESIGN): contract transactions run on the EVM over the
// native account ledger.  The contract programs are four tiny hand-assembled
// byte codes; under the executor go-ethereum's interpreter is replaced by a
// model of exactly these programs (A-EVM) that drives the repository's
// StateDBWrapper through the same call sequence as core.ApplyMessage.

import (
	ethcrypto "github.com/ethereum/go-ethereum/crypto"
	"github.com/holiman/uint256"
	"github.com/rigochain/rigo-go/ctrlers/vm/evm"
	ctrlertypes "github.com/rigochain/rigo-go/ctrlers/types"
	"github.com/rigochain/rigo-go/types"
	"github.com/rigochain/rigo-go/zzverif"
	abcitypes "github.com/tendermint/tendermint/abci/types"
)

// zzRuntime: 60 id 50 | PUSH1 0 x4, PUSH1 1 (value), PUSH20 third, GAS, CALL, POP | tail
//   id 0: STOP   id 1: call third, STOP   id 2: call third, REVERT   id 4: call third, INVALID
//   id 5: call third with value 0, call third with value 1, STOP
//   id 6: REVERT when called without value, STOP otherwise
//   id 7: storage cell - without call data RETURN slot 0, otherwise slot 0 := calldata[0:32]
//   id 8: factory - CREATE a child with empty code, RETURN its address
func zzRuntime(id int, third []byte) []byte {
	rt := []byte{0x60, byte(id), 0x50}
	if id == 0 {
		return append(rt, 0x00)
	}
	if id == 6 {
		// CALLVALUE, PUSH1 0x0C, JUMPI, PUSH1 0, PUSH1 0, REVERT, JUMPDEST, STOP
		return append(rt, 0x34, 0x60, 0x0C, 0x57, 0x60, 0x00, 0x60, 0x00, 0xFD, 0x5B, 0x00)
	}
	if id == 7 {
		// storage cell: PUSH1 7 POP | CALLDATASIZE PUSH1 0x12 JUMPI | PUSH1 0 SLOAD PUSH1 0 MSTORE PUSH1 32 PUSH1 0 RETURN
		//               | JUMPDEST PUSH1 0 CALLDATALOAD PUSH1 0 SSTORE STOP
		return append(rt, 0x36, 0x60, 0x12, 0x57, 0x60, 0x00, 0x54, 0x60, 0x00, 0x52, 0x60, 0x20, 0x60, 0x00, 0xF3,
			0x5B, 0x60, 0x00, 0x35, 0x60, 0x00, 0x55, 0x00)
	}
	if id == 8 {
		// factory: PUSH1 8 POP | PUSH1 1 PUSH1 0 PUSH1 0 CREATE | PUSH1 0 MSTORE | PUSH1 32 PUSH1 0 RETURN
		// (the child's init code is one byte of zeroed memory = STOP: empty runtime code)
		return append(rt, 0x60, 0x01, 0x60, 0x00, 0x60, 0x00, 0xF0, 0x60, 0x00, 0x52, 0x60, 0x20, 0x60, 0x00, 0xF3)
	}
	firstValue := byte(0x01)
	if id == 5 {
		firstValue = 0x00
	}
	rt = append(rt, 0x60, 0x00, 0x60, 0x00, 0x60, 0x00, 0x60, 0x00, 0x60, firstValue, 0x73)
	rt = append(rt, third...)
	rt = append(rt, 0x5A, 0xF1, 0x50)
	if id == 5 {
		// second call, value 1
		rt = append(rt, 0x60, 0x00, 0x60, 0x00, 0x60, 0x00, 0x60, 0x00, 0x60, 0x01, 0x73)
		rt = append(rt, third...)
		rt = append(rt, 0x5A, 0xF1, 0x50, 0x00)
	}
	switch id {
	case 1:
		rt = append(rt, 0x00)
	case 2:
		rt = append(rt, 0x60, 0x00, 0x60, 0x00, 0xFD)
	case 4:
		rt = append(rt, 0xFE)
	}
	return rt
}

func zzInitCode(id int, third []byte) []byte {
	rt := zzRuntime(id, third)
	return append([]byte{0x60, byte(len(rt)), 0x80, 0x60, 0x0B, 0x60, 0x00, 0x39, 0x60, 0x00, 0xF3}, rt...)
}

func (n *zzNode) balanceOf(a types.Address) *uint256.Int {
	acct := n.app.acctCtrler.FindAccount(a, true)
	if acct == nil {
		return uint256.NewInt(0)
	}
	return acct.GetBalance()
}

func (n *zzNode) nonceOf(a types.Address) uint64 {
	acct := n.app.acctCtrler.FindAccount(a, true)
	if acct == nil {
		return 0
	}
	return acct.GetNonce()
}

// deploy sends a deployment transaction from key `from` and returns the new contract address.
func (n *zzNode) deploy(from int, code []byte) types.Address {
	r := n.deliver(&zzTx{from: from, to: -1, typ: ctrlertypes.TRX_CONTRACT, amount: uint256.NewInt(0), gas: 1000000, gasPrice: n.gov.GasPrice(),
		nonce: n.nonce(from), signer: from, payload: &ctrlertypes.TrxPayloadContract{Data: code}})
	zzverif.Assume(r.Code == 0)
	return types.Address(r.Data)
}

func ZZ_C17_E12() {
	govp := ctrlertypes.Test1GovParams()
	n := zzNewGenesisBanded(3, 1, govp).start()
	n.emptyBlock(0)
	n.emptyBlock(0)
	x := zzAddr(2) // an externally owned, funded account
	if zzverif.Choose("callee.isPrecompile", 2) == 1 {
		// ... or the address of a precompiled contract (0x..02, sha256): pre-warmed by
		// the access-list preparation, no native account yet
		x = make(types.Address, 20)
		x[19] = 0x02
	}
	// block 3: deployments by A1
	n.begin(0, nil, nil)
	r2 := n.deploy(1, zzInitCode(2, x)) // pays x 1 unit, then reverts
	pid := []int{0, 1, 2, 4, 5}[zzverif.Choose("program", 5)]
	third := x
	thirdIsR := false
	if pid == 5 {
		// program 5 calls a value-sensitive callee twice: first call reverts, second pays it
		r2 = n.deploy(1, zzInitCode(6, nil))
		third, thirdIsR = r2, true
	} else if pid != 0 && zzverif.Choose("third.isContract", 2) == 1 {
		third, thirdIsR = r2, true
	}
	p := n.deploy(1, zzInitCode(pid, third))
	n.end()
	// block 4: the transaction under test
	sender := zzverif.Choose("tx.from", 2) // A0 is also the proposer
	kind := zzverif.Choose("tx.kind", 4)   // 0 contract call, 1 plain transfer to the contract, 2 deployment with value, 3 set-document tx addressed to the contract
	val := zzverif.NondetU256Below("tx.value", new(uint256.Int).Lsh(uint256.NewInt(1), 70))
	var gas uint64
	if zzverif.Choose("tx.gas.low", 2) == 1 {
		gas = zzverif.NondetU64In("tx.gas", 10, 20999)
	} else {
		gas = zzverif.NondetU64In("tx.gas", 300000, 1<<24)
	}
	n.begin(0, nil, nil)
	watch := []types.Address{zzAddr(sender), p, r2, x}
	var pre []*uint256.Int
	for _, a := range watch {
		pre = append(pre, n.balanceOf(a))
	}
	preNonce := n.nonceOf(zzAddr(sender))
	preFee := n.app.nextBlockCtx.SumFee()
	t := &zzTx{from: sender, amount: val, gas: gas, gasPrice: govp.GasPrice(), nonce: preNonce, signer: sender}
	// C03 on the contract path: the transaction may be signed with another account's key
	forged := zzverif.Choose("tx.forged", 2) == 1
	if forged {
		t.signer = 2
	}
	switch kind {
	case 0:
		t.typ, t.payload = ctrlertypes.TRX_CONTRACT, &ctrlertypes.TrxPayloadContract{Data: []byte{0xA0}}
	case 1:
		t.typ = ctrlertypes.TRX_TRANSFER
	case 2:
		t.typ, t.to, t.payload = ctrlertypes.TRX_CONTRACT, -1, &ctrlertypes.TrxPayloadContract{Data: zzInitCode(0, nil)}
	case 3:
		t.typ, t.payload = ctrlertypes.TRX_SETDOC, &ctrlertypes.TrxPayloadSetDoc{Name: "n", URL: "u"}
	}
	raw := n.encodeTo(t, p)
	r := n.app.DeliverTx(abcitypes.RequestDeliverTx{Tx: raw})
	var post []*uint256.Int
	for _, a := range watch {
		post = append(post, n.balanceOf(a))
	}
	postNonce := n.nonceOf(zzAddr(sender))
	postFee := n.app.nextBlockCtx.SumFee()
	fee := new(uint256.Int).Sub(postFee, preFee)
	if forged {
		zzverif.Assert(r.Code != 0, "I2 a transaction addressed to a contract takes effect only if signed by the sender's key")
	}
	if r.Code != 0 {
		// E2 / C05: a failed contract transaction leaves no trace
		for i := range watch {
			zzverif.Assert(post[i].Eq(pre[i]), "E2 failed contract tx: native balances unchanged")
		}
		zzverif.Assert(postNonce == preNonce, "E2 failed contract tx: nonce unchanged")
		zzverif.Assert(fee.IsZero(), "E2 failed contract tx: no fee")
		zzverif.Reach("E12 failed")
	} else if kind == 3 {
		// E3 routing: only contract transactions and transfers go to the EVM; any
		// other native type addressed to a contract pays its fee and uses its nonce
		zzverif.Assert(postNonce == preNonce+1, "E3 native tx addressed to a contract raises the nonce by one")
		zzverif.Assert(fee.Eq(new(uint256.Int).Mul(uint256.NewInt(gas), govp.GasPrice())), "E3 native tx addressed to a contract pays gas limit x price")
		zzverif.Assert(new(uint256.Int).Sub(pre[0], post[0]).Eq(fee), "E3 native tx addressed to a contract: the sender pays exactly the fee")
		zzverif.Assert(post[1].Eq(pre[1]), "E3 native tx addressed to a contract does not move the contract's balance")
		zzverif.Reach("E12 native tx to contract")
	} else {
		zzverif.Assert(postNonce == preNonce+1, "E2 successful contract tx raises the sender's nonce by one")
		zzverif.Assert(uint64(r.GasUsed) <= gas, "F3 gas used never exceeds the gas limit")
		zzverif.Assert(fee.Eq(new(uint256.Int).Mul(uint256.NewInt(uint64(r.GasUsed)), govp.GasPrice())), "F3 the fee is exactly gas used x price")
		// conservation over the touched accounts: what the sender lost = fee + what the others gained
		sumPre, sumPost := uint256.NewInt(0), uint256.NewInt(0)
		for i := range watch {
			sumPre.Add(sumPre, pre[i])
			sumPost.Add(sumPost, post[i])
		}
		created := uint256.NewInt(0)
		if kind == 2 {
			created = n.balanceOf(types.Address(r.Data)) // value sent to the new contract
			zzverif.Assert(created.Eq(val), "E1 deployment with value: the new contract holds the value")
		}
		zzverif.Assert(new(uint256.Int).Add(new(uint256.Int).Add(sumPost, fee), created).Eq(sumPre), "E1 native balances after the tx = EVM results: value is conserved across sender, contracts and callee")
		// expected effect of the program (reference semantics of the 4 programs)
		if kind != 2 {
			wantP := new(uint256.Int).Add(pre[1], val)
			wantX := pre[3].Clone()
			if pid == 1 && !thirdIsR && !wantP.IsZero() {
				wantP.Sub(wantP, uint256.NewInt(1))
				wantX.Add(wantX, uint256.NewInt(1))
			}
			// pid 1 calling r2: r2 pays x and reverts, the whole inner call is undone
			wantR := pre[2].Clone()
			if pid == 5 && !wantP.IsZero() {
				// first call (value 0) reverts, the second one pays the callee 1 unit
				wantP.Sub(wantP, uint256.NewInt(1))
				wantR.Add(wantR, uint256.NewInt(1))
			}
			zzverif.Assert(post[1].Eq(wantP), "E1 contract balance = reference EVM result")
			zzverif.Assert(post[3].Eq(wantX), "E1 callee balance = reference EVM result (an account first touched in a reverted frame keeps its native balance)")
			zzverif.Assert(post[2].Eq(wantR), "E1 contract callee balance = reference EVM result (a reverting call leaves it, a later successful call pays it)")
			zzverif.Assert(pid == 0 || pid == 1 || pid == 5, "E2 a program that reverts or hits an invalid opcode makes the tx fail")
		}
		zzverif.Reach("E12 succeeded")
	}
	n.end()
	// E4: a read-only call at the committed height changes nothing
	var before []*uint256.Int
	for _, a := range watch {
		before = append(before, n.balanceOf(a))
	}
	_, _ = evm.ZZCallVM(n.app.vmCtrler, zzAddr(1), p, []byte{0xA0}, n.height, 0)
	for i, a := range watch {
		zzverif.Assert(n.balanceOf(a).Eq(before[i]), "E4 read-only contract call changes no native balance")
	}
	zzverif.Assert(n.nonceOf(zzAddr(1)) == n.nonce(1), "E4 read-only contract call changes no nonce")
	zzNoPanic("block after the read-only call", func() { n.emptyBlock(0) })
	zzverif.Event("E12", pid, thirdIsR, kind, r.Code == 0)
	zzverif.Reach("E12 end")
}

// ---- E5: storage, return data and exact gas of a metered program ----------------

func zzCellWord(v uint64) []byte {
	w := make([]byte, 32)
	w[31] = byte(v)
	return w
}

// zzCellSetGas is the reference gas of `slot0 := nv` executed as a transaction of
// its own (the slot is cold and its original value is its current value):
// intrinsic gas + 30 for the straight-line code + SSTORE per EIP-2929/2200/3529.
func zzCellSetGas(cur, nv uint64) (exec, refund uint64) {
	switch {
	case cur == nv:
		return 30 + 2100 + 100, 0
	case cur == 0:
		return 30 + 2100 + 20000, 0
	case nv == 0:
		return 30 + 2100 + 2900, 4800
	}
	return 30 + 2100 + 2900, 0
}

func zzIntrinsic(data []byte) uint64 {
	g := uint64(21000)
	for _, b := range data {
		if b == 0 {
			g += 4
		} else {
			g += 16
		}
	}
	return g
}

// ZZ_C17_E5: three transactions on a storage-cell contract, spread over two
// blocks in every way; each is a setter with a value out of {0,1,2} and a
// symbolic gas limit.  Reference semantics: outcome, gas used (exactly), fee,
// storage (read back through read-only calls at every committed height).
func ZZ_C17_E5() {
	govp := ctrlertypes.Test1GovParams()
	n := zzNewGenesisBanded(3, 1, govp).start()
	n.emptyBlock(0)
	n.emptyBlock(0)
	n.begin(0, nil, nil)
	s := n.deploy(1, zzInitCode(7, nil))
	n.end()
	firstBlock := 1 + zzverif.Choose("txs.in.block4", 3) // 1..3 of the three transactions are in block 4
	tight := zzverif.Choose("tx.with.symbolic.gas", 3)
	cell := uint64(0)
	cellAt := map[int64]uint64{n.height: 0}
	n.begin(0, nil, nil)
	for k := 0; k < 3; k++ {
		if k == firstBlock {
			n.end()
			cellAt[n.height] = cell
			n.begin(0, nil, nil)
		}
		sender := 1 + k%2
		nv := uint64(zzverif.Choose("tx.newvalue", 3))
		data := zzCellWord(nv)
		ig := zzIntrinsic(data)
		gas := uint64(200000)
		if k == tight {
			gas = zzverif.NondetU64In("tx.gas", 21000, 1<<24)
		}
		pre := n.balanceOf(zzAddr(sender))
		preNonce := n.nonceOf(zzAddr(sender))
		preFee := n.app.nextBlockCtx.SumFee()
		t := &zzTx{from: sender, amount: uint256.NewInt(0), gas: gas, gasPrice: govp.GasPrice(), nonce: preNonce, signer: sender,
			typ: ctrlertypes.TRX_CONTRACT, payload: &ctrlertypes.TrxPayloadContract{Data: data}}
		r := n.app.DeliverTx(abcitypes.RequestDeliverTx{Tx: n.encodeTo(t, s)})
		post := n.balanceOf(zzAddr(sender))
		fee := new(uint256.Int).Sub(n.app.nextBlockCtx.SumFee(), preFee)
		exec, refund := zzCellSetGas(cell, nv)
		// the reference EVM: enough gas for the intrinsic part, the code up to SSTORE,
		// the 2300 sentry and the SSTORE itself
		enough := gas >= ig+30
		if enough {
			enough = gas-ig-30 > 2300
		}
		if enough {
			enough = gas-ig >= exec
		}
		if enough {
			zzverif.Assert(r.Code == 0, "E5 a setter with enough gas succeeds")
		} else {
			zzverif.Assert(r.Code != 0, "E5 a setter without enough gas fails")
		}
		if r.Code == 0 {
			used := ig + exec
			if refund > used/5 {
				refund = used / 5
			}
			used -= refund
			zzverif.Assert(uint64(r.GasUsed) == used, "E5 gas used = reference EVM (intrinsic + code + SSTORE - refund)")
			zzverif.Assert(fee.Eq(new(uint256.Int).Mul(uint256.NewInt(uint64(r.GasUsed)), govp.GasPrice())), "E5 the fee is exactly gas used x price")
			zzverif.Assert(new(uint256.Int).Sub(pre, post).Eq(fee), "E5 the sender pays exactly the fee")
			zzverif.Assert(n.nonceOf(zzAddr(sender)) == preNonce+1, "E5 successful tx raises the nonce by one")
			cell = nv
			zzverif.Reach("E5 setter succeeded")
		} else {
			zzverif.Assert(post.Eq(pre), "E5 failed tx: balance unchanged")
			zzverif.Assert(fee.IsZero(), "E5 failed tx: no fee")
			zzverif.Assert(n.nonceOf(zzAddr(sender)) == preNonce, "E5 failed tx: nonce unchanged")
			zzverif.Reach("E5 setter failed")
		}
	}
	n.end()
	cellAt[n.height] = cell
	// storage at every committed height, through read-only calls (which change nothing)
	for h := n.height - 2; h <= n.height; h++ {
		want, ok := cellAt[h]
		if !ok {
			continue
		}
		ret, failed, err := evm.ZZCallVMData(n.app.vmCtrler, zzAddr(1), s, nil, h, 0)
		zzverif.Assert(err == nil && !failed, "E5 read-only getter call succeeds")
		if err == nil && !failed {
			zzverif.Assert(len(ret) == 32 && zzverif.SameBytes(ret, zzCellWord(want)), "E5 storage at a committed height = reference EVM result")
		}
	}
	zzNoPanic("block after the read-only calls", func() { n.emptyBlock(0) })
	zzverif.Event("E5", firstBlock, cell)
	zzverif.Reach("E5 end")
}

// ZZ_C17_E6: creates.  A factory contract is called in two or three separate
// transactions (same or different blocks); every call creates a new child at
// CreateAddress(factory, factory's nonce), and the native nonces of factory and
// children equal the EVM's.
func ZZ_C17_E6() {
	govp := ctrlertypes.Test1GovParams()
	n := zzNewGenesisBanded(3, 1, govp).start()
	n.emptyBlock(0)
	n.emptyBlock(0)
	n.begin(0, nil, nil)
	f := n.deploy(1, zzInitCode(8, nil))
	n.end()
	zzverif.Assert(n.nonceOf(f) == 1, "E6 a deployed contract starts with nonce 1")
	ncalls := 2 + zzverif.Choose("calls", 2)
	sameBlock := zzverif.Choose("calls.in.one.block", 2) == 1
	n.begin(0, nil, nil)
	for k := 1; k <= ncalls; k++ {
		if k > 1 && !sameBlock {
			n.end()
			n.begin(0, nil, nil)
		}
		sender := 1 + k%2
		t := &zzTx{from: sender, amount: uint256.NewInt(0), gas: 1000000, gasPrice: govp.GasPrice(), nonce: n.nonceOf(zzAddr(sender)), signer: sender,
			typ: ctrlertypes.TRX_CONTRACT, payload: &ctrlertypes.TrxPayloadContract{Data: []byte{0x01}}}
		r := n.app.DeliverTx(abcitypes.RequestDeliverTx{Tx: n.encodeTo(t, f)})
		zzverif.Assert(r.Code == 0, "E6 a factory call succeeds")
		var f20 [20]byte
		copy(f20[:], f)
		child := ethcrypto.CreateAddress(f20, uint64(k))
		want := make([]byte, 32)
		copy(want[12:], child[:])
		zzverif.Assert(len(r.Data) == 32 && zzverif.SameBytes(r.Data, want), "E6 the k-th call returns the address derived from the factory's nonce k")
		zzverif.Assert(n.nonceOf(f) == uint64(1+k), "E6 the factory's native nonce = the EVM's (1 + number of creates)")
		zzverif.Assert(n.nonceOf(types.Address(child[:])) == 1, "E6 the created contract's native nonce = the EVM's (1)")
	}
	n.end()
	zzverif.Assert(n.nonceOf(f) == uint64(1+ncalls), "E6 committed: the factory's native nonce = 1 + number of creates")
	zzNoPanic("block after the creates", func() { n.emptyBlock(0) })
	zzverif.Event("E6", ncalls, sameBlock)
	zzverif.Reach("E6 end")
}
