package node

// C09: no externally supplied input crashes the node.

import (
	"github.com/holiman/uint256"
	"github.com/rigochain/rigo-go/ctrlers/gov/proposal"
	ctrlertypes "github.com/rigochain/rigo-go/ctrlers/types"
	"github.com/rigochain/rigo-go/types/crypto"
	"github.com/rigochain/rigo-go/zzverif"
	abcitypes "github.com/tendermint/tendermint/abci/types"
	"google.golang.org/protobuf/proto"
)

func zzBytesOfLen(n int, fill byte) []byte {
	if n == 0 {
		return nil
	}
	b := make([]byte, n)
	for i := range b {
		b[i] = fill
	}
	return b
}

func zzMustProto(m proto.Message) []byte {
	bz, err := proto.Marshal(m)
	if err != nil {
		panic(err)
	}
	return bz
}

// zzHostilePayload returns payload bytes for the given type: absent, garbage,
// or a well-formed payload message with boundary values.
func zzHostilePayload(typ int32) []byte {
	switch zzverif.Choose("payload.kind", 3) {
	case 0:
		return nil
	case 1:
		return []byte{0xff, 0xff, 0xff, 0x01}
	}
	switch typ {
	case ctrlertypes.TRX_UNSTAKING:
		n := []int{0, 31, 32, 33}[zzverif.Choose("payload.hashlen", 4)]
		return zzMustProto(&ctrlertypes.TrxPayloadUnstakingProto{TxHash: zzBytesOfLen(n, 0)})
	case ctrlertypes.TRX_WITHDRAW:
		return zzMustProto(&ctrlertypes.TrxPayloadWithdrawProto{XReqAmt: zzverif.NondetU256("payload.reqAmt").Bytes()})
	case ctrlertypes.TRX_PROPOSAL:
		var opts [][]byte
		switch zzverif.Choose("payload.opts", 3) {
		case 1:
			opts = [][]byte{[]byte("{not json")}
		case 2:
			opts = [][]byte{[]byte(`{"slashRatio":"60"}`)}
		}
		return zzMustProto(&ctrlertypes.TrxPayloadProposalProto{Message: "m",
			StartVotingHeight: zzverif.NondetI64("payload.start"), VotingBlocks: zzverif.NondetI64("payload.period"),
			ApplyingHeight: zzverif.NondetI64("payload.applying"), OptType: int32(zzverif.NondetI32("payload.optType")), Options: opts})
	case ctrlertypes.TRX_VOTING:
		n := []int{0, 32, 33}[zzverif.Choose("payload.hashlen", 3)]
		return zzMustProto(&ctrlertypes.TrxPayloadVotingProto{TxHash: zzBytesOfLen(n, 7), Choice: zzverif.NondetI32("payload.choice")})
	case ctrlertypes.TRX_SETDOC:
		n := []int{0, 5, 2049}[zzverif.Choose("payload.namelen", 3)]
		return zzMustProto(&ctrlertypes.TrxPayloadSetDocProto{Name: string(zzBytesOfLen(n, 'a')), Url: string(zzBytesOfLen(n, 'b'))})
	case ctrlertypes.TRX_CONTRACT:
		return zzMustProto(&ctrlertypes.TrxPayloadContractProto{XData: []byte{0x60, 0x00, 0xfe}})
	}
	return nil
}

// zzHostileTx: one externally supplied transaction byte string.
func (n *zzNode) zzHostileTx(small bool) []byte {
	switch zzverif.Choose("tx.shape", 3) {
	case 0:
		return []byte{0xde, 0xad, 0xbe, 0xef, 0x01}
	case 1:
		return nil
	}
	typ := int32(zzverif.Choose("tx.type", 10)) // 0 and 9 are unknown types
	addrs := [][]byte{zzAddr(0), zzAddr(2), zzStranger(), zzBytesOfLen(19, 1), zzBytesOfLen(21, 1), nil, make([]byte, 20)}
	froms, tos := addrs, addrs
	if small {
		froms = [][]byte{zzAddr(0), zzStranger(), zzBytesOfLen(19, 1)}
		tos = [][]byte{zzAddr(0), zzBytesOfLen(21, 1), make([]byte, 20)}
	}
	from := froms[zzverif.Choose("tx.from", len(froms))]
	to := tos[zzverif.Choose("tx.to", len(tos))]
	price := n.gov.GasPrice()
	if zzverif.Choose("tx.price.other", 2) == 1 {
		price = zzverif.NondetU256("tx.gasPrice")
	}
	pm := &ctrlertypes.TrxProto{Version: 1, Time: zzverif.NondetI64("tx.time"), Nonce: zzverif.NondetU64("tx.nonce"), From: from, To: to,
		XAmount: zzverif.NondetU256("tx.amount").Bytes(), Gas: zzverif.NondetU64("tx.gas"), XGasPrice: price.Bytes(), Type: typ,
		XPayload: zzHostilePayload(typ)}
	nsig := 3
	sigKind := zzverif.Choose("tx.sig", nsig)
	if small && sigKind == 0 {
		sigKind = 2
	}
	switch sigKind {
	case 0:
		pm.Sig = nil
	case 1:
		pm.Sig = zzBytesOfLen(65, 3)
	case 2:
		// a genuine signature by key 0 over exactly this transaction (when it decodes)
		tx := &ctrlertypes.Trx{}
		if xerr := tx.Decode(zzMustProto(pm)); xerr == nil {
			if pre, xerr := ctrlertypes.PreImageToSignTrxRLP(tx, zzChainID); xerr == nil {
				prv, _ := crypto.ImportPrvKeyHex(zzKeyTab[0].priv)
				pm.Sig, _ = crypto.Sign(pre, prv)
			}
		}
	}
	return zzMustProto(pm)
}

func zzNoPanic(what string, f func()) (ok bool) {
	defer func() {
		if p := recover(); p != nil {
			zzverif.Assert(false, what+" does not panic")
			ok = false
		}
	}()
	f()
	return true
}

// ZZ_C09_P1: hostile bytes as a transaction, in a block and to the mempool
// check; afterwards the node still serves a block.
func ZZ_C09_P1()      { zzC09P1(false) }
func ZZ_C09_P1small() { zzC09P1(true) }

func zzC09P1(small bool) {
	gov := ctrlertypes.ZZSymGovParams("gov", ctrlertypes.ZZAllGovFields)
	n := zzNewNode(2, 1, gov)
	n.emptyBlock(0)
	raw := n.zzHostileTx(small)
	inBlock := zzverif.Choose("inBlock", 2) == 1
	if inBlock {
		n.begin(0, nil, nil)
		if !zzNoPanic("DeliverTx", func() { n.app.DeliverTx(abcitypes.RequestDeliverTx{Tx: raw}) }) {
			return
		}
	} else {
		if !zzNoPanic("CheckTx", func() { n.app.CheckTx(abcitypes.RequestCheckTx{Tx: raw, Type: abcitypes.CheckTxType_New}) }) {
			return
		}
		n.begin(0, nil, nil)
	}
	// the application remains usable: a well-formed transfer is answered and the block ends
	ok := zzNoPanic("follow-up DeliverTx", func() {
		n.deliver(&zzTx{from: 1, to: 0, typ: ctrlertypes.TRX_TRANSFER, amount: uint256.NewInt(0), gas: n.gov.MinTrxGas(), gasPrice: n.gov.GasPrice(), nonce: 0, signer: 1})
	})
	ok = ok && zzNoPanic("EndBlock/Commit", func() { n.end() })
	if ok {
		zzverif.Reach("P1 end")
	}
}

// ZZ_C09_P2: query requests with arbitrary path, data length and height.
func ZZ_C09_P2() {
	gov := ctrlertypes.ZZSymGovParams("gov", ctrlertypes.ZZAllGovFields)
	n := zzNewNode(2, 1, gov)
	n.emptyBlock(0)
	n.emptyBlock(0)
	paths := []string{"account", "stakes", "stakes/total_power", "stakes/voting_power", "delegatee", "reward", "proposal", "gov_params", "vm_call", "nonsense", ""}
	path := paths[zzverif.Choose("q.path", len(paths))]
	lens := []int{0, 19, 20, 32, 39}
	if path != "vm_call" {
		// a vm_call of >= 40 bytes needs the consensus engine's RPC environment
		// (block time lookup), which is not an input
		lens = append(lens, 40, 41)
	}
	data := zzBytesOfLen(lens[zzverif.Choose("q.len", len(lens))], 0xA1)
	if zzverif.Choose("q.known", 2) == 1 && len(data) >= 20 {
		copy(data, zzAddr(0))
	}
	height := zzverif.NondetI64In("q.height", -2, 5)
	if !zzNoPanic("Query", func() { n.app.Query(abcitypes.RequestQuery{Path: path, Data: data, Height: height}) }) {
		return
	}
	if zzNoPanic("block after query", func() { n.emptyBlock(0) }) {
		zzverif.Reach("P2 end")
	}
}

// ZZ_C09_P3: a well-formed but arbitrary transaction of every native type
// against a state that has validators, stakes, rewards and an open proposal:
// neither the mempool check nor delivery panics.
func ZZ_C09_P3() {
	sc := zzSetup(false)
	n := sc.n
	sc.nondetTx(false)
	if zzverif.Choose("inBlock", 2) == 1 {
		n.begin(1, nil, nil)
		if !zzNoPanic("DeliverTx", func() { n.app.DeliverTx(abcitypes.RequestDeliverTx{Tx: sc.raw}) }) {
			return
		}
	} else {
		if !zzNoPanic("CheckTx", func() { n.app.CheckTx(abcitypes.RequestCheckTx{Tx: sc.raw, Type: abcitypes.CheckTxType_New}) }) {
			return
		}
		n.begin(1, nil, nil)
	}
	if zzNoPanic("EndBlock/Commit", func() { n.end() }) {
		zzverif.Assert(true, "P3 no panic")
		zzverif.Reach("P3 end")
	}
}

// zzHostileDocs: governance-parameter option documents given as literal JSON
// text (what a client can put into a proposal): well-formed, oversized in
// decimal and in hexadecimal, negative, wrongly typed, truncated.
var zzHostileDocs = []string{
	`{"slashRatio":"60"}`,
	`{"gasPrice":"115792089237316195423570985008687907853269984665640564039457584007913129639936"}`,
	`{"gasPrice":"0x10000000000000000000000000000000000000000000000000000000000000000"}`,
	`{"minValidatorStake":"0xffffffffffffffffffffffffffffffffffffffffffffffffffffffffffffffff"}`,
	`{"minValidatorStake":"-1"}`,
	`{"rewardPerPower":"0x-5"}`,
	`{"rewardPerPower":12}`,
	`{"maxValidatorCnt":"99999999999999999999999999"}`,
	`{"gasPrice":"1e400"}`,
	`{"gasPrice":`,
	`[]`,
	`null`,
	`{"version":"-9223372036854775809"}`,
}

// ZZ_C09_P5: a proposal whose option is one of the literal documents above,
// sent by a validator with otherwise valid fields, to the mempool check and in
// a block.  Literal JSON text is outside the executor's codec model (A-CODEC:
// it cannot decode it and predicts a rejection), so this harness is decided by
// the native replay of every explored path (registered with validate >= the
// number of paths): a panic of the real decoder shows up as a native
// divergence.
func ZZ_C09_P5() {
	govp := ctrlertypes.Test1GovParams()
	n := zzNewGenesisBanded(3, 1, govp).start()
	n.emptyBlock(0)
	n.emptyBlock(0)
	doc := zzverif.Choose("option.document", len(zzHostileDocs))
	start := n.height + 2
	pl := &ctrlertypes.TrxPayloadProposal{Message: "m", StartVotingHeight: start, VotingPeriodBlocks: govp.MinVotingPeriodBlocks(),
		ApplyingHeight: start + govp.MinVotingPeriodBlocks() + govp.LazyApplyingBlocks(), OptType: proposal.PROPOSAL_GOVPARAMS, Options: [][]byte{[]byte(zzHostileDocs[doc])}}
	t := &zzTx{from: 0, to: -1, typ: ctrlertypes.TRX_PROPOSAL, amount: uint256.NewInt(0), gas: govp.MinTrxGas(), gasPrice: govp.GasPrice(), nonce: n.nonce(0), payload: pl, signer: 0}
	raw := n.encode(t)
	ok := zzNoPanic("CheckTx", func() { n.app.CheckTx(abcitypes.RequestCheckTx{Tx: raw, Type: abcitypes.CheckTxType_New}) })
	n.begin(0, nil, nil)
	if ok {
		ok = zzNoPanic("DeliverTx", func() { n.app.DeliverTx(abcitypes.RequestDeliverTx{Tx: raw}) })
	}
	if ok && zzNoPanic("EndBlock/Commit", func() { n.end() }) {
		zzverif.Reach("P5 end")
	}
	zzverif.Event("P5", doc)
}
