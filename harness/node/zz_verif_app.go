package node

// Application-level fixture: a real RigoApp (real controllers, ledgers and
// transaction executor) driven through the ABCI methods.

import (
	"encoding/hex"
	"time"

	"github.com/holiman/uint256"
	cfg "github.com/rigochain/rigo-go/cmd/config"
	ctrlertypes "github.com/rigochain/rigo-go/ctrlers/types"
	"github.com/rigochain/rigo-go/genesis"
	"github.com/rigochain/rigo-go/types"
	"github.com/rigochain/rigo-go/types/crypto"
	"github.com/rigochain/rigo-go/zzverif"
	abcitypes "github.com/tendermint/tendermint/abci/types"
	tmcrypto "github.com/tendermint/tendermint/proto/tendermint/crypto"
	tmjson "github.com/tendermint/tendermint/libs/json"
	"github.com/tendermint/tendermint/libs/log"
	tmproto "github.com/tendermint/tendermint/proto/tendermint/types"
)

type zzKeyT struct{ priv, pub, addr string }

// fixed test keys (private key, compressed public key, address)
var zzKeyTab = []zzKeyT{
	{"0000000000000000000000000000000000000000000000000000000000002eef", "038A4A7B6C3B598E42851B0913209A95FDEDF0F8BE6F152B331DAC61A26F9B6997", "AD688E4DD5622F65C5639CB6F7B2C92C259670A8"},
	{"0000000000000000000000000000000000000000000000000000000000004dde", "02A0406C740FB5A7100D2F180BD993E360D9537EA92EAAD421BEF7AFBAFE3D8743", "F4BEC98BE5D8FBCDD40107B2419F8796713920BB"},
	{"0000000000000000000000000000000000000000000000000000000000006ccd", "0346E741C70279C1DC9DE078C2C2D0740D1DB494BC0E58CA792C6329CD4F8D02A4", "9C9349743B1303DFAE8EB7432B232ECB66153521"},
	{"0000000000000000000000000000000000000000000000000000000000008bbc", "024606794AA038D3EDA257B70E1F6ECBC87F3AB6BAACAC68EFA723CAEF0ADF63B6", "1F47AB784FAABB9DF042F5F4B8C4EF90052AE1DE"},
	{"000000000000000000000000000000000000000000000000000000000000aaab", "0259AE649D62EC00655604896C5D75995933DC09E9D2A585D2FD7B8FE5D67B0F37", "B3EE43E85FA1CB40C86ADEC9940D984EA64C0D2A"},
}

func zzUnhex(s string) []byte {
	b, err := hex.DecodeString(s)
	if err != nil {
		panic(err)
	}
	return b
}

func zzAddr(i int) types.Address { return zzUnhex(zzKeyTab[i].addr) }
func zzPub(i int) []byte         { return zzUnhex(zzKeyTab[i].pub) }

// zzStranger is an address nobody holds a key for and that has no account.
func zzStranger() types.Address {
	a := make([]byte, 20)
	a[0], a[19] = 0xEE, 0x01
	return a
}

const zzChainID = "zz-chain"

var zzT0 = time.Date(2023, 1, 1, 0, 0, 0, 0, time.UTC)

type zzNode struct {
	app    *RigoApp
	dir    string
	height int64
	gov    *ctrlertypes.GovParams
	nvals  int
	lastSig []byte // signature produced by the latest encode
	outs    []*zzBlockOut // outputs of the menu blocks run so far (C07)
	genPowers []int64     // genesis validator powers
	beforeTx  func()      // called before every DeliverTx of a menu block (C01: pool flush)
}

func (n *zzNode) genesisPower(i int) int64 { return n.genPowers[i] }

func zzOpenApp(dir string) *RigoApp {
	conf := cfg.DefaultConfig()
	conf.DBPath = dir
	app := NewRigoApp(conf, log.NewNopLogger())
	return app
}

// zzGenesis holds the (symbolic) genesis values so that several replicas can
// be started from the same symbols.
type zzGenesis struct {
	balances []*uint256.Int
	powers   []int64
	gov      *ctrlertypes.GovParams
}

func zzNewGenesis(nholders, nvals int, gov *ctrlertypes.GovParams) *zzGenesis {
	for _, k := range zzKeyTab {
		zzverif.RegisterKey(k.priv, zzUnhex(k.addr), zzUnhex(k.pub))
	}
	g := &zzGenesis{gov: gov}
	for i := 0; i < nholders; i++ {
		g.balances = append(g.balances, zzverif.NondetU256Below("genesis.balance", zzMaxBalance()))
	}
	for i := 0; i < nvals; i++ {
		g.powers = append(g.powers, zzverif.NondetI64In("genesis.power", 1, zzMaxPower))
	}
	return g
}

// zzNewGenesisBanded is zzNewGenesis with validator powers drawn from disjoint
// descending bands (so that the ranking of validators is the same for every
// value and sorting does not fork); still symbolic inside each band.
func zzNewGenesisBanded(nholders, nvals int, gov *ctrlertypes.GovParams) *zzGenesis {
	g := zzNewGenesis(nholders, 0, gov)
	// ample balances (>= 2^80): fees of the prelude never decide an outcome
	for i := range g.balances {
		g.balances[i] = new(uint256.Int).Add(g.balances[i], new(uint256.Int).Lsh(uint256.NewInt(1), 80))
	}
	for i := 0; i < nvals; i++ {
		lo := int64(nvals-i) << 40
		g.powers = append(g.powers, zzverif.NondetI64In("genesis.power", lo, lo+(1<<20)))
	}
	return g
}

// start creates an application in a fresh directory and runs Info + InitChain.
func (g *zzGenesis) start() *zzNode {
	dir := zzverif.TempDir()
	app := zzOpenApp(dir)
	info := app.Info(abcitypes.RequestInfo{})
	if info.LastBlockHeight != 0 {
		panic("fresh application reports a height")
	}
	return g.startOn(app, dir)
}

// startOn runs InitChain on an application that has already answered Info.
func (g *zzGenesis) startOn(app *RigoApp, dir string) *zzNode {
	n := &zzNode{dir: dir, gov: g.gov, nvals: len(g.powers), app: app, genPowers: g.powers}
	var holders []*genesis.GenesisAssetHolder
	for i, b := range g.balances {
		holders = append(holders, &genesis.GenesisAssetHolder{Address: zzAddr(i), Balance: b.Clone()})
	}
	st := genesis.GenesisAppState{AssetHolders: holders, GovParams: g.gov}
	bz, err := tmjson.Marshal(st)
	if err != nil {
		panic(err)
	}
	var vals []abcitypes.ValidatorUpdate
	for i, p := range g.powers {
		vals = append(vals, abcitypes.ValidatorUpdate{PubKey: tmcrypto.PublicKey{Sum: &tmcrypto.PublicKey_Secp256K1{Secp256K1: zzPub(i)}}, Power: p})
	}
	n.app.InitChain(abcitypes.RequestInitChain{ChainId: zzChainID, AppStateBytes: bz, Validators: vals})
	return n
}

// zzNewNode: holders A0..A(nholders-1) with symbolic balances, validators
// A0..A(nvals-1) with symbolic power, symbolic governance parameters (A-GOV).
func zzNewNode(nholders, nvals int, gov *ctrlertypes.GovParams) *zzNode {
	return zzNewGenesis(nholders, nvals, gov).start()
}

const zzMaxPower = int64(1) << 55

// A-SUPPLY: balances < 2^100
func zzMaxBalance() *uint256.Int { return new(uint256.Int).Lsh(uint256.NewInt(1), 100) }

func (n *zzNode) begin(proposer int, votes []abcitypes.VoteInfo, evs []abcitypes.Evidence) {
	n.height++
	hdr := tmproto.Header{Height: n.height, Time: zzT0.Add(time.Duration(n.height) * time.Second)}
	if proposer >= 0 {
		hdr.ProposerAddress = zzAddr(proposer)
	}
	n.app.BeginBlock(abcitypes.RequestBeginBlock{Header: hdr, LastCommitInfo: abcitypes.LastCommitInfo{Votes: votes}, ByzantineValidators: evs})
}

func (n *zzNode) end() (abcitypes.ResponseEndBlock, []byte) {
	r := n.app.EndBlock(abcitypes.RequestEndBlock{Height: n.height})
	c := n.app.Commit()
	return r, c.Data
}

// emptyBlock runs a block without transactions.
func (n *zzNode) emptyBlock(proposer int) []byte {
	n.begin(proposer, nil, nil)
	_, h := n.end()
	return h
}

type zzTx struct {
	from, to int // key index; to = -1: zero address, -2: stranger
	typ      int32
	amount   *uint256.Int
	gas      uint64
	gasPrice *uint256.Int
	nonce    uint64
	payload  ctrlertypes.ITrxPayload
	signer   int  // key index used to sign (normally == from)
	chain    string
	mutate   int // != 0: alter one signed field after signing (C03)
	forceSig []byte // != nil: carry this signature instead of a fresh one (C03: signature lifted from another transaction)
	time     int64  // Trx.Time (0: the fixed value 1)
	chainEmpty bool // sign for the chain id "" (chain == "" means this chain)
}

func (n *zzNode) toAddr(i int) types.Address {
	switch i {
	case -1:
		return types.ZeroAddress()
	case -2:
		return zzStranger()
	case -3:
		a := zzStranger()
		a[19] = 0x02
		return a
	}
	return zzAddr(i)
}

// encode builds and signs the transaction and returns its wire bytes.
func (n *zzNode) encode(t *zzTx) []byte { return n.encodeTo(t, nil) }

// encodeTo is encode with an explicit receiver address (contract addresses).
func (n *zzNode) encodeTo(t *zzTx, to types.Address) []byte {
	if to == nil || (t.typ == ctrlertypes.TRX_CONTRACT && t.to == -1) {
		to = n.toAddr(t.to)
	}
	txTime := int64(1)
	if t.time != 0 {
		txTime = t.time
	}
	tx := &ctrlertypes.Trx{Version: 1, Time: txTime, Nonce: t.nonce, From: zzAddr(t.from), To: to, Amount: t.amount,
		Gas: t.gas, GasPrice: t.gasPrice, Type: t.typ, Payload: t.payload}
	chain := t.chain
	if chain == "" && !t.chainEmpty {
		chain = zzChainID
	}
	pre, xerr := ctrlertypes.PreImageToSignTrxRLP(tx, chain)
	if xerr != nil {
		panic(xerr)
	}
	prv, err := crypto.ImportPrvKeyHex(zzKeyTab[t.signer].priv)
	if err != nil {
		panic(err)
	}
	sig, err := crypto.Sign(pre, prv)
	if err != nil {
		panic(err)
	}
	tx.Sig = sig
	n.lastSig = sig
	if t.forceSig != nil {
		tx.Sig = t.forceSig
	}
	switch t.mutate {
	case 1:
		tx.Amount = new(uint256.Int).Add(tx.Amount, uint256.NewInt(1))
	case 2:
		tx.Nonce++
	case 3:
		tx.Gas++
	case 4:
		if t.to == -2 {
			tx.To = types.ZeroAddress()
		} else {
			tx.To = zzStranger()
		}
	case 5:
		tx.Time++
	case 6:
		tx.Version++
	case 7:
		tx.From = zzAddr((t.from + 1) % 3)
	case 8:
		switch p := tx.Payload.(type) {
		case *ctrlertypes.TrxPayloadUnstaking:
			h := append([]byte{}, p.TxHash...)
			h[31] ^= 1
			tx.Payload = &ctrlertypes.TrxPayloadUnstaking{TxHash: h}
		case *ctrlertypes.TrxPayloadVoting:
			tx.Payload = &ctrlertypes.TrxPayloadVoting{TxHash: p.TxHash, Choice: p.Choice + 1}
		case *ctrlertypes.TrxPayloadWithdraw:
			tx.Payload = &ctrlertypes.TrxPayloadWithdraw{ReqAmt: new(uint256.Int).Add(p.ReqAmt, uint256.NewInt(1))}
		case *ctrlertypes.TrxPayloadSetDoc:
			tx.Payload = &ctrlertypes.TrxPayloadSetDoc{Name: p.Name + "x", URL: p.URL}
		case *ctrlertypes.TrxPayloadProposal:
			q := *p
			q.ApplyingHeight++
			tx.Payload = &q
		default:
			tx.GasPrice = new(uint256.Int).Add(tx.GasPrice, uint256.NewInt(1))
		}
	}
	bz, xerr := tx.Encode()
	if xerr != nil {
		panic(xerr)
	}
	return bz
}

func (n *zzNode) deliver(t *zzTx) abcitypes.ResponseDeliverTx {
	return n.app.DeliverTx(abcitypes.RequestDeliverTx{Tx: n.encode(t)})
}

// state readers (consensus view of the running block)
func (n *zzNode) balance(i int) *uint256.Int {
	a := n.app.acctCtrler.FindAccount(n.toAddr(i), true)
	if a == nil {
		return uint256.NewInt(0)
	}
	return a.GetBalance()
}
func (n *zzNode) nonce(i int) uint64 {
	a := n.app.acctCtrler.FindAccount(n.toAddr(i), true)
	if a == nil {
		return 0
	}
	return a.GetNonce()
}
