package node

import (
	"github.com/holiman/uint256"
	ctrlertypes "github.com/rigochain/rigo-go/ctrlers/types"
	"github.com/rigochain/rigo-go/zzverif"
)

// ZZ_Smoke: genesis, one empty block, one block with a transfer.
func ZZ_Smoke() {
	gov := ctrlertypes.ZZSymGovParams("gov", ctrlertypes.ZZAllGovFields)
	n := zzNewNode(2, 1, gov)
	n.emptyBlock(0)
	b0, b1 := n.balance(0), n.balance(1)
	n.begin(0, nil, nil)
	amt := zzverif.NondetU256Below("amount", zzMaxBalance())
	gas := zzverif.NondetU64In("gas", 0, 1<<62)
	r := n.deliver(&zzTx{from: 0, to: 1, typ: ctrlertypes.TRX_TRANSFER, amount: amt, gas: gas, gasPrice: gov.GasPrice(), nonce: 0, signer: 0})
	fee := new(uint256.Int).Mul(uint256.NewInt(gas), gov.GasPrice())
	if r.Code == 0 {
		zzverif.Assert(n.balance(1).Eq(new(uint256.Int).Add(b1, amt)), "receiver credited")
		zzverif.Assert(n.balance(0).Eq(new(uint256.Int).Sub(new(uint256.Int).Sub(b0, amt), fee)), "sender debited amount+fee")
		zzverif.Reach("smoke ok")
	} else {
		zzverif.Assert(n.balance(0).Eq(b0) && n.balance(1).Eq(b1), "failed tx leaves balances")
		zzverif.Reach("smoke failed tx")
	}
	n.end()
	zzverif.Reach("smoke end")
}
