package node

// Per-property assertions over the shared one-transaction scenario.

import (
	"github.com/holiman/uint256"
	"github.com/rigochain/rigo-go/ctrlers/stake"
	ctrlertypes "github.com/rigochain/rigo-go/ctrlers/types"
	"github.com/rigochain/rigo-go/zzverif"
	abcitypes "github.com/tendermint/tendermint/abci/types"
)

// ZZ_C04_N1: nonces.  success => tx.nonce == sender's nonce, which rises by
// exactly one; nobody else's nonce moves; failure => no nonce moves.  N2: the
// same bytes delivered again (same block, next block) fail.
func ZZ_C04_N12() {
	sc := zzSetup(false)
	n := sc.n
	sc.nondetTx(false)
	sc.proposer = 1
	n.begin(sc.proposer, nil, nil)
	pre := n.snap(sc.frozenKeys, sc.propHash)
	r := n.app.DeliverTx(abcitypes.RequestDeliverTx{Tx: sc.raw})
	sc.reachOutcome(r.Code)
	post := n.snap(sc.frozenKeys, sc.propHash)
	for i := 0; i < zzNAcct; i++ {
		if r.Code == 0 && i == sc.tx.from {
			zzverif.Assert(pre.nonce[i] == sc.tx.nonce, "N1 success only with nonce == current nonce")
			zzverif.Assert(post.nonce[i] == pre.nonce[i]+1, "N1 success raises the sender's nonce by exactly one")
		} else {
			zzverif.Assert(post.nonce[i] == pre.nonce[i], "N1 every other nonce (and every nonce on failure) is unchanged")
		}
	}
	if r.Code == 0 {
		again := zzverif.Choose("replay.when", 2)
		if again == 1 {
			n.end()
			n.begin(sc.proposer, nil, nil)
		}
		r2 := n.app.DeliverTx(abcitypes.RequestDeliverTx{Tx: sc.raw})
		zzverif.Assert(r2.Code != 0, "N2 the same signed transaction cannot take effect twice")
		zzverif.Reach("N12 success")
	} else {
		zzverif.Reach("N12 failure")
	}
	n.end()
	// N3: the nonce is durable - the committed account record (what a restarted
	// process, or a replica syncing from the store, loads) carries the nonce in
	// force, for the sender and for everybody else (round 8, seed C04-h)
	for i := 0; i < zzNAcct; i++ {
		live := n.app.acctCtrler.FindAccount(zzAddr(i), true)
		com := n.app.acctCtrler.ReadAccount(zzAddr(i))
		if live != nil {
			zzverif.Assert(com != nil && com.GetNonce() == live.GetNonce(), "N3 after Commit the committed account record carries the nonce in force")
			zzverif.Assert(com != nil && com.GetBalance().Eq(live.GetBalance()), "N3 after Commit the committed account record carries the balance in force")
		}
	}
}

// ZZ_C05_A1: a transaction that returns a non-zero code changes nothing and
// a later transaction in the same block sees the unchanged state.
func ZZ_C05_A1() {
	sc := zzSetup(false)
	n := sc.n
	sc.nondetTx(false)
	// withdraw: the validator also signed the previous block, so that its reward
	// object has already been updated in this block (BeginBlock) when the
	// transaction runs - a failing withdraw must not take that update back
	// (round 8, seed C05-h)
	var votes []abcitypes.VoteInfo
	if sc.typ == ctrlertypes.TRX_WITHDRAW {
		d := stake.ZZDelegatee(n.app.stakeCtrler, zzAddr(0))
		votes = []abcitypes.VoteInfo{{Validator: abcitypes.Validator{Address: zzAddr(0), Power: d.TotalPower}, SignedLastBlock: true}}
	}
	n.begin(1, votes, nil)
	pre := n.snap(sc.frozenKeys, sc.propHash)
	r := n.app.DeliverTx(abcitypes.RequestDeliverTx{Tx: sc.raw})
	sc.reachOutcome(r.Code)
	if r.Code == 0 {
		zzverif.Reach("A1 success")
		return
	}
	post := n.snap(sc.frozenKeys, sc.propHash)
	zzAssertSame(pre, post, "A1 failed tx")
	// observer: a plain transfer A2 -> A1 of a symbolic amount behaves as if the failed tx never happened
	amt := zzverif.NondetU256Below("obs.amount", zzMaxBalance())
	ro := n.deliver(&zzTx{from: 2, to: 1, typ: ctrlertypes.TRX_TRANSFER, amount: amt, gas: n.gov.MinTrxGas(), gasPrice: n.gov.GasPrice(), nonce: pre.nonce[2], signer: 2})
	fee := new(uint256.Int).Mul(uint256.NewInt(n.gov.MinTrxGas()), n.gov.GasPrice())
	need := new(uint256.Int).Add(amt, fee)
	zzverif.Assert((ro.Code == 0) == !need.Gt(pre.bal[2]), "A1 observer tx succeeds iff the unchanged balance covers it")
	n.end()
	zzverif.Reach("A1 failure")
}

// ZZ_C16_F12: admission and exact charge of a native transaction.
func ZZ_C16_F12() {
	sc := zzSetup(false)
	n := sc.n
	sc.nondetTx(false)
	n.begin(1, nil, nil)
	pre := n.snap(sc.frozenKeys, sc.propHash)
	r := n.app.DeliverTx(abcitypes.RequestDeliverTx{Tx: sc.raw})
	sc.reachOutcome(r.Code)
	post := n.snap(sc.frozenKeys, sc.propHash)
	fee := sc.fee()
	if r.Code != 0 {
		zzverif.Assert(post.feeSum.Eq(pre.feeSum), "F4 a failed transaction contributes no fee")
		zzverif.Reach("F12 failure")
	} else {
		zzverif.Assert(sc.tx.gasPrice.Eq(n.gov.GasPrice()), "F1 admitted only with the governance gas price")
		zzverif.Assert(!fee.Lt(n.gov.MinTrxFee()), "F1 admitted only with gas x price >= minimum fee")
		zzverif.Assert(uint64(r.GasUsed) == sc.tx.gas && uint64(r.GasWanted) == sc.tx.gas, "F2 native tx: gas used = gas limit")
		zzverif.Assert(new(uint256.Int).Sub(post.feeSum, pre.feeSum).Eq(fee), "F4 the block's fee sum grows by exactly gas x price")
		// what leaves the sender besides the fee
		moved := uint256.NewInt(0)
		switch sc.typ {
		case ctrlertypes.TRX_TRANSFER:
			if sc.tx.to != sc.tx.from {
				moved = sc.tx.amount
			}
		case ctrlertypes.TRX_STAKING:
			moved = sc.tx.amount
		}
		credit := uint256.NewInt(0)
		if sc.typ == ctrlertypes.TRX_WITHDRAW {
			credit = sc.reqAmt
		}
		want := new(uint256.Int).Add(new(uint256.Int).Sub(new(uint256.Int).Sub(pre.bal[sc.tx.from], fee), moved), credit)
		zzverif.Assert(post.bal[sc.tx.from].Eq(want), "F2 the sender pays exactly gas limit x price on top of what the transaction moves")
		zzverif.Reach("F12 success")
	}
	// F4: the proposer is credited with exactly the fee sum at the end of the block
	balP := n.balance(1)
	sum := post.feeSum
	n.app.EndBlock(abcitypes.RequestEndBlock{Height: n.height})
	got := new(uint256.Int).Sub(n.balance(1), balP)
	zzverif.Assert(got.Eq(sum), "F4 proposer credited with exactly the sum of the block's fees")
	n.app.Commit()
}

// ZZ_C02_V1: conservation of value over one transaction and the block end.
func ZZ_C02_V1() {
	sc := zzSetup(false)
	n := sc.n
	sc.nondetTx(false)
	proposer := []int{1, -9}[zzverif.Choose("proposer", 2)] // -9: header without proposer
	n.begin(proposer, nil, nil)
	pre := n.snap(sc.frozenKeys, sc.propHash)
	r := n.app.DeliverTx(abcitypes.RequestDeliverTx{Tx: sc.raw})
	sc.reachOutcome(r.Code)
	post := n.snap(sc.frozenKeys, sc.propHash)
	want := pre.total()
	if r.Code == 0 && sc.typ == ctrlertypes.TRX_WITHDRAW {
		want = new(uint256.Int).Add(want, sc.reqAmt)
		zzverif.Assert(new(uint256.Int).Sub(pre.cum[sc.tx.from], post.cum[sc.tx.from]).Eq(sc.reqAmt), "V1 withdrawal lowers the withdrawable reward by exactly the amount created")
	}
	zzverif.Assert(post.total().Eq(want), "V1 balances + bonded + unbonding + fees in flight is conserved by a transaction (withdraw: + withdrawn reward)")
	for i := 0; i < zzNAcct; i++ {
		zzverif.Assert(post.bal[i].Lt(new(uint256.Int).Lsh(uint256.NewInt(1), 200)), "V6 no balance wraps around")
	}
	// block end: fees go to the proposer (or are burnt when there is none)
	n.app.EndBlock(abcitypes.RequestEndBlock{Height: n.height})
	end := n.snap(sc.frozenKeys, sc.propHash)
	end.feeSum = uint256.NewInt(0)
	if proposer >= 0 {
		zzverif.Assert(end.total().Eq(post.total()), "V2 the block's fees are credited to the proposer, nothing is created or destroyed")
	} else {
		zzverif.Assert(new(uint256.Int).Add(end.total(), post.feeSum).Eq(post.total()), "V2 without a proposer exactly the fees are burnt")
	}
	n.app.Commit()
	zzverif.Reach("V1 end")
}

// ZZ_C03_I23: a transaction whose signature does not verify for this chain
// against the exact executed fields fails without effect; a successful one
// is signed by the sender's key over exactly these fields.
func ZZ_C03_I23() {
	sc := zzSetup(true)
	n := sc.n
	sc.nondetTx(true)
	n.begin(1, nil, nil)
	pre := n.snap(sc.frozenKeys, sc.propHash)
	r := n.app.DeliverTx(abcitypes.RequestDeliverTx{Tx: sc.raw})
	sc.reachOutcome(r.Code)
	if r.Code == 0 {
		zzverif.Assert(sc.sigOK, "I2 a transaction takes effect only if signed by the sender's key, for this chain, over exactly its fields")
		zzverif.Reach("I23 success")
	} else {
		post := n.snap(sc.frozenKeys, sc.propHash)
		zzAssertSame(pre, post, "I3 rejected tx")
		if sc.sigOK {
			zzverif.Reach("I23 honest failure")
		} else {
			zzverif.Reach("I23 forged rejected")
		}
	}
	n.end()
}

// ZZ_C03_I4: a signature lifted from an earlier, honestly signed and already
// processed transaction of the same sender is put on a different transaction.
// The second transaction must be rejected without effect whatever its fields
// are (it differs from the first at least in the nonce).
func ZZ_C03_I4() {
	govp := ctrlertypes.Test1GovParams()
	n := zzNewGenesisBanded(3, 1, govp).start()
	n.emptyBlock(0)
	n.emptyBlock(0)
	n.begin(0, nil, nil)
	from := 1 + zzverif.Choose("tx.from", 2)
	a1 := zzverif.NondetU256Below("tx1.amount", new(uint256.Int).Lsh(uint256.NewInt(1), 64))
	t1 := &zzTx{from: from, to: -2, typ: ctrlertypes.TRX_TRANSFER, amount: a1, gas: govp.MinTrxGas(), gasPrice: govp.GasPrice(), nonce: n.nonce(from), signer: from}
	r1 := n.deliver(t1)
	zzverif.Assume(r1.Code == 0)
	sig1 := n.lastSig
	if zzverif.Choose("second.in.next.block", 2) == 1 {
		n.end()
		n.begin(0, nil, nil)
	}
	// the forged transaction: any amount, receiver, type out of {transfer, set-document}, the sender's current nonce
	a2 := zzverif.NondetU256Below("tx2.amount", new(uint256.Int).Lsh(uint256.NewInt(1), 64))
	t2 := &zzTx{from: from, to: -2 - zzverif.Choose("tx2.to", 2), typ: ctrlertypes.TRX_TRANSFER, amount: a2, gas: govp.MinTrxGas(), gasPrice: govp.GasPrice(),
		nonce: n.nonce(from), signer: from, forceSig: sig1}
	if zzverif.Choose("tx2.setdoc", 2) == 1 {
		t2.typ, t2.amount, t2.payload = ctrlertypes.TRX_SETDOC, uint256.NewInt(0), &ctrlertypes.TrxPayloadSetDoc{Name: "n", URL: "u"}
	}
	pre := n.snap(nil, nil)
	r2 := n.deliver(t2)
	zzverif.Assert(r2.Code != 0, "I4 a transaction carrying the signature of another transaction is rejected")
	post := n.snap(nil, nil)
	zzAssertSame(pre, post, "I4 rejected tx")
	// and the honest path still works: the same fields, freshly signed
	t2.forceSig = nil
	r3 := n.deliver(t2)
	if r3.Code == 0 {
		zzverif.Reach("I4 honest second tx accepted")
	}
	n.end()
	zzverif.Reach("I4 end")
}

// ZZ_C03_I5: "fails without effect", relationally.  Twin replicas; replica B's
// block 3 starts with a forged transaction (a menu transaction signed with
// another account's key), then both replicas deliver the same honest menu
// transaction.  Everything observable afterwards - the honest transaction's
// result, validator updates, application hashes of blocks 3 and 4 - must be
// the same as on the replica that never saw the forged transaction.
// 4 validators: the stake limiter (per-block mutable state) is active.
func ZZ_C03_I5() {
	govp := ctrlertypes.Test1GovParams()
	g := zzNewGenesisBanded(5, 4, govp)
	a, b := g.start(), g.start()
	for _, n := range []*zzNode{a, b} {
		n.emptyBlock(0)
		n.emptyBlock(0)
	}
	forged := zzSimpleTx(b, "forged", 0)
	forged.signer = (forged.from + 1) % 5
	toStranger := false
	if forged.typ == ctrlertypes.TRX_TRANSFER && zzverif.Choose("forged.to.fresh.address", 2) == 1 {
		forged.to, toStranger = -2, true
	}
	rawF := b.encode(forged)
	honest := zzSimpleTx(a, "honest", 0)
	rawH := a.encode(honest)
	next := zzSimpleTx(a, "next", 0)
	if next.from == honest.from {
		next.nonce = 1
	}
	rawN := a.encode(next)
	run := func(n *zzNode, raws ...[]byte) *zzBlockOut {
		out := &zzBlockOut{}
		n.begin(0, nil, nil)
		for _, raw := range raws {
			r := n.app.DeliverTx(abcitypes.RequestDeliverTx{Tx: raw})
			out.codes, out.gasUsed = append(out.codes, r.Code), append(out.gasUsed, r.GasUsed)
		}
		e := n.app.EndBlock(abcitypes.RequestEndBlock{Height: n.height})
		out.ups = e.ValidatorUpdates
		out.hash = n.app.Commit().Data
		return out
	}
	oa3 := run(a, rawH)
	ob3 := run(b, rawF, rawH)
	zzverif.Assert(ob3.codes[0] != 0, "I5 the forged transaction is rejected")
	ob3.codes, ob3.gasUsed = ob3.codes[1:], ob3.gasUsed[1:]
	// known finding C03-K1: the receiver account of a transaction is created (and
	// committed) before the transaction is validated, so a rejected transaction to
	// an address without account leaves an empty account record behind
	// (a deployment is addressed to the zero address, which has no account on a fresh chain)
	zzverif.Known("C03-K1", toStranger || forged.to == -1)
	zzSameOut(oa3, ob3, "I5 block with a forged transaction in front")
	oa4, ob4 := run(a, rawN), run(b, rawN)
	zzSameOut(oa4, ob4, "I5 block after a forged transaction")
	zzverif.Known("C03-K1", false)
	zzverif.Reach("I5 end")
}

// ZZ_C03_I6: the chain id a signature is checked against stays this chain's id
// for the whole life of the node: after further Info calls (abci_info of a
// running node) and after a restart on the same data.  A transfer signed for
// the empty chain id or for another chain is rejected, one signed for this
// chain is accepted.
func ZZ_C03_I6() {
	govp := ctrlertypes.Test1GovParams()
	n := zzNewGenesisBanded(3, 1, govp).start()
	n.emptyBlock(0)
	n.emptyBlock(0)
	switch zzverif.Choose("before", 3) {
	case 1: // the consensus engine / an RPC client asks for Info again
		n.app.Info(abcitypes.RequestInfo{})
	case 2: // restart on a copy of the data directory
		b := &zzNode{dir: zzverif.CopyDir(n.dir), gov: govp, nvals: 1, height: n.height}
		b.app = zzOpenApp(b.dir)
		b.app.Info(abcitypes.RequestInfo{})
		n = b
	}
	n.begin(0, nil, nil)
	signedFor := zzverif.Choose("signed.for", 3) // this chain | the empty chain id | another chain
	t := &zzTx{from: 1, to: 2, typ: ctrlertypes.TRX_TRANSFER, amount: zzverif.NondetU256Below("amount", new(uint256.Int).Lsh(uint256.NewInt(1), 64)),
		gas: govp.MinTrxGas(), gasPrice: govp.GasPrice(), nonce: n.nonce(1), signer: 1}
	switch signedFor {
	case 1:
		t.chainEmpty = true
	case 2:
		t.chain = "other-chain"
	}
	pre := n.snap(nil, nil)
	r := n.deliver(t)
	if signedFor == 0 {
		zzverif.Assert(r.Code == 0, "I6 a transfer signed for this chain is accepted")
		zzverif.Reach("I6 own chain accepted")
	} else {
		zzverif.Assert(r.Code != 0, "I6 a transaction signed for another (or the empty) chain id is never accepted")
		zzAssertSame(pre, n.snap(nil, nil), "I6 rejected tx")
	}
	n.end()
	zzverif.Reach("I6 end")
}

// ZZ_C16_F5: the minimum-fee rule also binds contract transactions, whatever
// the relation between the governance minimum gas and the EVM's intrinsic gas
// (round 8, seed C16-h): minTrxGas symbolic up to 2^20, a contract call with a
// symbolic gas limit, CheckTx and DeliverTx.
func ZZ_C16_F5() {
	govp := ctrlertypes.Test1GovParams()
	ctrlertypes.ZZSetMinTrxGas(govp, zzverif.NondetU64In("gov.minTrxGas", 1, 1<<20))
	n := zzNewGenesisBanded(3, 1, govp).start()
	n.emptyBlock(0)
	n.emptyBlock(0)
	gas := zzverif.NondetU64In("tx.gas", 1, 1<<21)
	val := zzverif.NondetU256Below("tx.value", uint256.NewInt(1<<40))
	callee := zzAddr(2)
	deploy := zzverif.Choose("tx.deploy", 2) == 1
	t := &zzTx{from: 1, amount: val, gas: gas, gasPrice: govp.GasPrice(), nonce: n.nonceOf(zzAddr(1)), signer: 1,
		typ: ctrlertypes.TRX_CONTRACT, payload: &ctrlertypes.TrxPayloadContract{Data: []byte{0xA0}}}
	var raw []byte
	if deploy {
		t.to, t.payload = -1, &ctrlertypes.TrxPayloadContract{Data: zzInitCode(0, nil)}
		raw = n.encode(t)
	} else {
		raw = n.encodeTo(t, callee)
	}
	fee := new(uint256.Int).Mul(uint256.NewInt(gas), govp.GasPrice())
	rc := n.app.CheckTx(abcitypes.RequestCheckTx{Tx: raw, Type: abcitypes.CheckTxType_New})
	if rc.Code == 0 {
		zzverif.Assert(!fee.Lt(govp.MinTrxFee()), "F1 contract tx admitted to the mempool only with gas x price >= minimum fee")
		zzverif.Reach("F5 checktx admitted")
	}
	n.begin(0, nil, nil)
	r := n.app.DeliverTx(abcitypes.RequestDeliverTx{Tx: raw})
	if r.Code == 0 {
		zzverif.Assert(!fee.Lt(govp.MinTrxFee()), "F1 contract tx executed only with gas x price >= minimum fee")
		zzverif.Reach("F5 delivered")
	} else {
		zzverif.Reach("F5 rejected")
	}
	n.end()
}
