package node

// C19: queries return the state committed at the requested height, unaffected
// by a block in flight and by pending mempool checks; answers for past
// heights never change.

import (
	"strconv"

	"github.com/holiman/uint256"
	"github.com/rigochain/rigo-go/ctrlers/stake"
	ctrlertypes "github.com/rigochain/rigo-go/ctrlers/types"
	"github.com/rigochain/rigo-go/types"
	"github.com/rigochain/rigo-go/zzverif"
	abcitypes "github.com/tendermint/tendermint/abci/types"
	tmjson "github.com/tendermint/tendermint/libs/json"
)

// accounts observed by the queries: A1, A2, an address that gets its account
// in block 2 and an address that only ever appears in a pending CheckTx
var zzC19Accts = []int{1, 2, -2, -3}

type zzCommitted struct {
	bal    [4]*uint256.Int
	nonce  [4]uint64
	dTotal [2]int64
	dSelf  [2]int64
	dN     [2]int
	cum0   *uint256.Int
	hasRwd bool
}

func (n *zzNode) committedView() *zzCommitted {
	c := &zzCommitted{}
	for k, i := range zzC19Accts {
		c.bal[k], c.nonce[k] = n.balance(i), n.nonce(i)
	}
	for i := 0; i < 2; i++ {
		if d := stake.ZZDelegatee(n.app.stakeCtrler, zzAddr(i)); d != nil {
			c.dTotal[i], c.dSelf[i], c.dN[i] = d.TotalPower, d.SelfPower, len(d.Stakes)
		}
	}
	c.cum0 = stake.ZZCumulated(n.app.stakeCtrler, zzAddr(0))
	c.hasRwd = n.app.stakeCtrler.RewardOf(zzAddr(0)) != nil
	return c
}

type zzAcctJSON struct {
	Address types.Address `json:"address"`
	Name    string        `json:"name,omitempty"`
	Nonce   uint64        `json:"nonce,string"`
	Balance string        `json:"balance"`
	Code    []byte        `json:"code,omitempty"`
	DocURL  string        `json:"docURL,omitempty"`
}

func (n *zzNode) query(path string, data []byte, h int64) abcitypes.ResponseQuery {
	return n.app.Query(abcitypes.RequestQuery{Path: path, Data: data, Height: h})
}

// checkQueries compares every query at height h (asked as reqH, which may be 0
// for "latest") with the recorded committed view.
func (n *zzNode) checkQueries(reqH, h int64, want *zzCommitted, tag string) {
	for i, ref := range zzC19Accts {
		r := n.query("account", n.toAddr(ref), reqH)
		zzverif.Assert(r.Code == 0 && r.Height == h, tag+": account query answers for the requested height")
		var a zzAcctJSON
		if err := tmjson.Unmarshal(r.Value, &a); err != nil {
			zzverif.Assert(false, tag+": account answer decodes")
			continue
		}
		b, err := uint256.FromDecimal(a.Balance)
		zzverif.Assert(err == nil, tag+": balance decodes")
		if err == nil {
			zzverif.Assert(b.Eq(want.bal[i]), tag+": account balance = committed balance at that height")
		}
		zzverif.Assert(a.Nonce == want.nonce[i], tag+": account nonce = committed nonce at that height")
	}
	total := int64(0)
	for i := 0; i < 2; i++ {
		r := n.query("delegatee", zzAddr(i), reqH)
		if want.dN[i] == 0 {
			zzverif.Assert(r.Code != 0, tag+": absent delegatee is reported as not found")
			continue
		}
		zzverif.Assert(r.Code == 0 && r.Height == h, tag+": delegatee query answers for the requested height")
		var d stake.Delegatee
		if err := tmjson.Unmarshal(r.Value, &d); err != nil {
			zzverif.Assert(false, tag+": delegatee answer decodes")
			continue
		}
		zzverif.Assert(d.TotalPower == want.dTotal[i] && d.SelfPower == want.dSelf[i] && len(d.Stakes) == want.dN[i], tag+": delegatee = committed delegatee at that height")
		total += want.dTotal[i]
	}
	r := n.query("stakes/total_power", nil, reqH)
	zzverif.Assert(r.Code == 0, tag+": total power query succeeds")
	if p, err := strconv.ParseInt(string(r.Value), 10, 64); err == nil {
		zzverif.Assert(p == total, tag+": total power = sum of committed delegatee powers at that height")
	} else {
		zzverif.Assert(false, tag+": total power decodes")
	}
	// stakes owned by A2
	r = n.query("stakes", zzAddr(2), reqH)
	zzverif.Assert(r.Code == 0, tag+": stakes query succeeds")
	var ss []*stake.Stake
	if err := tmjson.Unmarshal(r.Value, &ss); err == nil {
		wantN := 0
		for i := 0; i < 2; i++ {
			if want.dN[i] > 1 {
				wantN += want.dN[i] - 1 // everything beyond the self stake was delegated by A2
			}
		}
		zzverif.Assert(len(ss) == wantN, tag+": stakes of an owner = committed stakes at that height")
	} else {
		zzverif.Assert(false, tag+": stakes answer decodes")
	}
	r = n.query("reward", zzAddr(0), reqH)
	if want.hasRwd {
		zzverif.Assert(r.Code == 0, tag+": reward query succeeds")
		var rw stake.Reward
		if err := tmjson.Unmarshal(r.Value, &rw); err == nil {
			zzverif.Assert(rw.GetCumulated().Eq(want.cum0), tag+": reward = committed reward at that height")
		} else {
			zzverif.Assert(false, tag+": reward answer decodes")
		}
	} else {
		zzverif.Assert(r.Code != 0, tag+": no reward record before the first issuance")
	}
	r = n.query("gov_params", nil, reqH)
	zzverif.Assert(r.Code == 0, tag+": gov_params query succeeds")
	var gp ctrlertypes.GovParams
	if err := tmjson.Unmarshal(r.Value, &gp); err == nil {
		ctrlertypes.ZZGovParamsAssertEq(&gp, n.gov, tag+": governance parameters")
	} else {
		zzverif.Assert(false, tag+": gov_params answer decodes")
	}
}

func ZZ_C19_Q1() {
	govp := ctrlertypes.ZZSymGovParams("gov", ctrlertypes.ZZAllGovFields)
	n := zzNewGenesis(3, 2, govp).start()
	var views [4]*zzCommitted
	n.emptyBlock(0)
	views[1] = n.committedView()
	// block 2: transfer A2 -> A1 or to an address that has no account yet
	n.begin(0, nil, nil)
	r := n.deliver(&zzTx{from: 2, to: []int{1, -2}[zzverif.Choose("b2.to", 2)], typ: ctrlertypes.TRX_TRANSFER, amount: zzverif.NondetU256Below("b2.amount", zzMaxBalance()), gas: govp.MinTrxGas(), gasPrice: govp.GasPrice(), nonce: 0, signer: 2})
	zzverif.Assume(r.Code == 0)
	n.end()
	views[2] = n.committedView()
	// block 3: A2 delegates to A0; A0 signed block 2 and is rewarded
	d0 := stake.ZZDelegatee(n.app.stakeCtrler, zzAddr(0))
	votes := []abcitypes.VoteInfo{{Validator: abcitypes.Validator{Address: zzAddr(0), Power: d0.TotalPower}, SignedLastBlock: true}}
	n.begin(0, votes, nil)
	r = n.deliver(&zzTx{from: 2, to: 0, typ: ctrlertypes.TRX_STAKING, amount: ctrlertypes.PowerToAmount(zzverif.NondetI64In("b3.power", 1, 1<<30)), gas: govp.MinTrxGas(), gasPrice: govp.GasPrice(), nonce: 1, signer: 2})
	zzverif.Assume(r.Code == 0)
	n.end()
	views[3] = n.committedView()
	// block 4 in flight + a pending mempool check
	n.begin(0, votes, nil)
	// the in-flight block changes balances and bonded power (a delegation A2 -> A1)
	r = n.deliver(&zzTx{from: 2, to: 1, typ: ctrlertypes.TRX_STAKING, amount: ctrlertypes.PowerToAmount(1), gas: govp.MinTrxGas(), gasPrice: govp.GasPrice(), nonce: 2, signer: 2})
	n.app.CheckTx(abcitypes.RequestCheckTx{Tx: n.encode(&zzTx{from: 1, to: -3, typ: ctrlertypes.TRX_TRANSFER, amount: uint256.NewInt(1), gas: govp.MinTrxGas(), gasPrice: govp.GasPrice(), nonce: 0, signer: 1}), Type: abcitypes.CheckTxType_New})
	h := int64(zzverif.Choose("q.height", 5)) // 0 = latest, 1..3, 4 = not yet committed
	switch {
	case h == 4:
		rq := n.query("account", zzAddr(1), 4)
		zzverif.Assert(rq.Code != 0, "in flight: a height that is not committed yet cannot be queried")
	case h == 0:
		n.checkQueries(0, 3, views[3], "in flight, latest")
	default:
		n.checkQueries(h, h, views[h], "in flight, past height")
	}
	n.end()
	if h >= 1 && h <= 3 {
		n.checkQueries(h, h, views[h], "after one more commit")
	}
	zzverif.Reach("Q1 end")
}
