package node

// C06: block execution is isolated from CheckTx and Query traffic.  Twin
// replicas from the same symbols; replica B additionally serves one request
// at a forked position of the schedule.

import (
	"github.com/holiman/uint256"
	"github.com/rigochain/rigo-go/ctrlers/stake"
	ctrlertypes "github.com/rigochain/rigo-go/ctrlers/types"
	"github.com/rigochain/rigo-go/zzverif"
	abcitypes "github.com/tendermint/tendermint/abci/types"
)

type zzBlockOut struct {
	codes   []uint32
	gasUsed []int64
	data    [][]byte
	ups     []abcitypes.ValidatorUpdate
	hash    []byte
}

func zzSameOut(a, b *zzBlockOut, tag string) {
	zzverif.Assert(len(a.codes) == len(b.codes), tag+": same number of results")
	for i := range a.codes {
		if i < len(b.codes) {
			zzverif.Assert(a.codes[i] == b.codes[i], tag+": same transaction result code")
			zzverif.Assert(a.gasUsed[i] == b.gasUsed[i], tag+": same gas used")
			if i < len(a.data) && i < len(b.data) {
				zzverif.Assert(zzverif.SameBytes(a.data[i], b.data[i]), tag+": same transaction result data")
			}
		}
	}
	zzverif.Assert(len(a.ups) == len(b.ups), tag+": same number of validator updates")
	for i := range a.ups {
		if i < len(b.ups) {
			zzverif.Assert(a.ups[i].Power == b.ups[i].Power && zzverif.SameBytes(a.ups[i].PubKey.GetSecp256K1(), b.ups[i].PubKey.GetSecp256K1()), tag+": same validator update")
		}
	}
	zzverif.Assert(zzverif.SameBytes(a.hash, b.hash), tag+": same application hash")
}

// zzStakeTx: a staking (delegation or self) or unstaking or transfer tx with symbolic amount.
func zzSimpleTx(n *zzNode, tag string, nonce uint64) *zzTx {
	t := &zzTx{gas: n.gov.MinTrxGas(), gasPrice: n.gov.GasPrice(), nonce: nonce}
	switch zzverif.Choose(tag+".kind", 4) {
	case 3: // contract deployment by A3 (the EVM path copies accounts in and out)
		t.typ = ctrlertypes.TRX_CONTRACT
		t.from, t.to = 3, -1
		t.amount = uint256.NewInt(0)
		t.gas = 1000000
		t.payload = &ctrlertypes.TrxPayloadContract{Data: zzInitCode(0, nil)}
	case 0:
		t.typ = ctrlertypes.TRX_STAKING
		t.from = 3 // A3: a funded delegator
		t.to = zzverif.Choose(tag+".to", 2)
		// a small or a large delegation (the large one trips the stake limiter)
		t.amount = ctrlertypes.PowerToAmount([]int64{1, 1 << 41}[zzverif.Choose(tag+".power", 2)])
	case 1:
		t.typ = ctrlertypes.TRX_UNSTAKING
		t.from = zzverif.Choose(tag+".from", 2)
		t.to = t.from
		t.amount = uint256.NewInt(0)
		t.payload = &ctrlertypes.TrxPayloadUnstaking{TxHash: make([]byte, 32)}
	case 2:
		t.typ = ctrlertypes.TRX_TRANSFER
		t.from, t.to = 3, 4
		t.amount = zzverif.NondetU256Below(tag+".amount", zzMaxBalance())
	}
	t.signer = t.from
	return t
}

// ZZ_C06_M1: 4 validators (stake limiter active), two empty prelude blocks;
// block 3 with one transaction, block 4 with one transaction.  Replica B
// serves one extra CheckTx (of a symbolic transaction) or Query at one of 5
// positions around block 3.
func ZZ_C06_M1() {
	// concrete governance parameters (ratios 50/33/33): the property is about
	// information flow between the mempool path and block execution
	govp := ctrlertypes.Test1GovParams()
	g := zzNewGenesisBanded(5, 4, govp)
	a, b := g.start(), g.start()
	for _, n := range []*zzNode{a, b} {
		n.emptyBlock(0)
		n.emptyBlock(0)
	}
	tx3 := zzSimpleTx(a, "tx3", 0)
	raw3 := a.encode(tx3)
	tx4 := zzSimpleTx(a, "tx4", 0)
	if tx4.from == tx3.from {
		tx4.nonce = 1 // right nonce if tx3 succeeded; a wrong one is fine too (same on both replicas)
	}
	raw4 := a.encode(tx4)
	// the injected request
	slot := zzverif.Choose("inject.slot", 5)
	isQuery := zzverif.Choose("inject.query", 2) == 1
	var rawC []byte
	if !isQuery {
		txc := zzSimpleTx(b, "txc", 0)
		if zzverif.Choose("inject.sameAsTx3", 2) == 1 {
			rawC = raw3
		} else {
			rawC = b.encode(txc)
		}
		// known finding C06-K1: the stake limiter is shared with the mempool path –
		// a staking/unstaking CheckTx between BeginBlock and the DeliverTx of a
		// staking/unstaking transaction (slot 1) changes that DeliverTx's result
		injectedStake := txc.typ != ctrlertypes.TRX_TRANSFER
		if zzverif.SameBytes(rawC, raw3) {
			injectedStake = tx3.typ != ctrlertypes.TRX_TRANSFER
		}
		zzverif.Known("C06-K1", slot == 1 && injectedStake && tx3.typ != ctrlertypes.TRX_TRANSFER)
	}
	inject := func(at int) {
		if at != slot {
			return
		}
		if isQuery {
			b.app.Query(abcitypes.RequestQuery{Path: []string{"account", "delegatee", "stakes/total_power", "gov_params"}[zzverif.Choose("inject.path", 4)], Data: zzAddr(0), Height: 0})
		} else {
			b.app.CheckTx(abcitypes.RequestCheckTx{Tx: rawC, Type: abcitypes.CheckTxType_New})
		}
	}
	run := func(n *zzNode, raw []byte, withInject bool) *zzBlockOut {
		out := &zzBlockOut{}
		if withInject {
			inject(0)
		}
		n.begin(0, nil, nil)
		if withInject {
			inject(1)
		}
		r := n.app.DeliverTx(abcitypes.RequestDeliverTx{Tx: raw})
		out.codes, out.gasUsed = append(out.codes, r.Code), append(out.gasUsed, r.GasUsed)
		if withInject {
			inject(2)
		}
		e := n.app.EndBlock(abcitypes.RequestEndBlock{Height: n.height})
		out.ups = e.ValidatorUpdates
		if withInject {
			inject(3)
		}
		out.hash = n.app.Commit().Data
		if withInject {
			inject(4)
		}
		return out
	}
	oa3, ob3 := run(a, raw3, false), run(b, raw3, true)
	zzSameOut(oa3, ob3, "block 3")
	oa4, ob4 := run(a, raw4, false), run(b, raw4, false)
	zzSameOut(oa4, ob4, "block 4")
	zzverif.Reach("M1 end")
}

// ZZ_C06_M2: a block that deletes and re-creates a ledger item (validator A1
// unbonds its only stake and bonds again in the same block) while the node
// serves a CheckTx that touches the same item (a delegation to A1) at any
// position of that block.  Two validators: the stake limiter is not involved.
func ZZ_C06_M2() {
	govp := ctrlertypes.Test1GovParams()
	g := zzNewGenesisBanded(5, 2, govp)
	a, b := g.start(), g.start()
	for _, n := range []*zzNode{a, b} {
		n.emptyBlock(0)
		n.emptyBlock(0)
	}
	gas, price := govp.MinTrxGas(), govp.GasPrice()
	unbond := &zzTx{from: 1, to: 1, typ: ctrlertypes.TRX_UNSTAKING, amount: uint256.NewInt(0), gas: gas, gasPrice: price, nonce: 0, signer: 1,
		payload: &ctrlertypes.TrxPayloadUnstaking{TxHash: make([]byte, 32)}}
	rebond := &zzTx{from: 1, to: 1, typ: ctrlertypes.TRX_STAKING, amount: ctrlertypes.PowerToAmount(1000), gas: gas, gasPrice: price, nonce: 1, signer: 1}
	deleg := &zzTx{from: 3, to: 1, typ: ctrlertypes.TRX_STAKING, amount: ctrlertypes.PowerToAmount(zzverif.NondetI64In("deleg.power", 1, 1<<30)), gas: gas, gasPrice: price, nonce: 0, signer: 3}
	raws := [][]byte{a.encode(unbond), a.encode(rebond)}
	rawC := b.encode(deleg)
	slot := zzverif.Choose("inject.slot", 5) // before the block | after BeginBlock | between the txs | after the txs | after EndBlock
	run := func(n *zzNode, withInject bool) *zzBlockOut {
		out := &zzBlockOut{}
		inj := func(at int) {
			if withInject && at == slot {
				n.app.CheckTx(abcitypes.RequestCheckTx{Tx: rawC, Type: abcitypes.CheckTxType_New})
			}
		}
		inj(0)
		n.begin(0, nil, nil)
		inj(1)
		for i, raw := range raws {
			r := n.app.DeliverTx(abcitypes.RequestDeliverTx{Tx: raw})
			out.codes, out.gasUsed = append(out.codes, r.Code), append(out.gasUsed, r.GasUsed)
			if i == 0 {
				inj(2)
			}
		}
		inj(3)
		e := n.app.EndBlock(abcitypes.RequestEndBlock{Height: n.height})
		out.ups = e.ValidatorUpdates
		inj(4)
		out.hash = n.app.Commit().Data
		return out
	}
	oa3, ob3 := run(a, false), run(b, true)
	if oa3.codes[0] == 0 && oa3.codes[1] == 0 {
		zzverif.Reach("M2 unbonded and re-bonded")
	}
	zzSameOut(oa3, ob3, "M2 block 3")
	for k := 0; k < 2; k++ {
		oa, ob := a.menuBlock(nil, true), b.menuBlock(nil, true)
		zzSameOut(oa, ob, "M2 later block")
	}
	zzverif.Reach("M2 end")
}

// ZZ_C06_M3: contract traffic on the mempool path.  A contract exists; while
// block 3 is open the node serves a CheckTx of a transfer to that contract or
// of a call of it (symbolic value).  Block results and application hashes of
// blocks 3 and 4 must not depend on it.
func ZZ_C06_M3() {
	govp := ctrlertypes.Test1GovParams()
	g := zzNewGenesisBanded(5, 2, govp)
	a, b := g.start(), g.start()
	var pa, pb []byte
	prog := zzverif.Choose("program", 2) * 7 // STOP, or the storage cell
	for _, n := range []*zzNode{a, b} {
		n.emptyBlock(0)
		n.begin(0, nil, nil)
		p := n.deploy(1, zzInitCode(prog, nil))
		n.end()
		if n == a {
			pa = p
		} else {
			pb = p
		}
	}
	zzverif.Assert(zzverif.SameBytes(pa, pb), "M3 same contract address on both replicas")
	gas, price := uint64(200000), govp.GasPrice()
	val := zzverif.NondetU256Below("check.value", new(uint256.Int).Lsh(uint256.NewInt(1), 64))
	chk := &zzTx{from: 3, typ: ctrlertypes.TRX_TRANSFER, amount: val, gas: gas, gasPrice: price, nonce: 0, signer: 3}
	if zzverif.Choose("check.isCall", 2) == 1 {
		chk.typ, chk.payload = ctrlertypes.TRX_CONTRACT, &ctrlertypes.TrxPayloadContract{Data: zzCellWord(1)}
	}
	rawC := b.encodeTo(chk, pb)
	blockTx := &zzTx{from: 4, typ: ctrlertypes.TRX_CONTRACT, amount: uint256.NewInt(0), gas: gas, gasPrice: price, nonce: 0, signer: 4,
		payload: &ctrlertypes.TrxPayloadContract{Data: zzCellWord(2)}}
	raw := a.encodeTo(blockTx, pa)
	slot := zzverif.Choose("inject.slot", 4) // after BeginBlock | after the tx | after EndBlock | after Commit
	run := func(n *zzNode, withInject bool, raws ...[]byte) *zzBlockOut {
		out := &zzBlockOut{}
		inj := func(at int) {
			if withInject && at == slot {
				n.app.CheckTx(abcitypes.RequestCheckTx{Tx: rawC, Type: abcitypes.CheckTxType_New})
			}
		}
		n.begin(0, nil, nil)
		inj(0)
		for _, r0 := range raws {
			r := n.app.DeliverTx(abcitypes.RequestDeliverTx{Tx: r0})
			out.codes, out.gasUsed = append(out.codes, r.Code), append(out.gasUsed, r.GasUsed)
		}
		inj(1)
		e := n.app.EndBlock(abcitypes.RequestEndBlock{Height: n.height})
		out.ups = e.ValidatorUpdates
		inj(2)
		out.hash = n.app.Commit().Data
		inj(3)
		return out
	}
	withTx := zzverif.Choose("block3.has.tx", 2) == 1
	var oa3, ob3 *zzBlockOut
	if withTx {
		oa3, ob3 = run(a, false, raw), run(b, true, raw)
	} else {
		oa3, ob3 = run(a, false), run(b, true)
	}
	zzSameOut(oa3, ob3, "M3 block 3")
	oa4, ob4 := run(a, false), run(b, false)
	zzSameOut(oa4, ob4, "M3 block 4")
	zzverif.Reach("M3 end")
}

// ZZ_C06_M4: mempool traffic before the first block that carries votes.  Block 1
// is empty; replica B then serves a CheckTx of a delegation to a validator (or of
// a validator's unbonding); block 2 carries the votes of block 1, so rewards are
// computed from the state of version 1.  Block outputs, application hashes and
// the validators' rewards must be the same on both replicas.
func ZZ_C06_M4() {
	govp := ctrlertypes.Test1GovParams()
	g := zzNewGenesisBanded(5, 2, govp)
	a, b := g.start(), g.start()
	for _, n := range []*zzNode{a, b} {
		n.emptyBlock(0)
	}
	gas, price := govp.MinTrxGas(), govp.GasPrice()
	var chk *zzTx
	if zzverif.Choose("check.kind", 2) == 0 {
		chk = &zzTx{from: 3, to: zzverif.Choose("check.to", 2), typ: ctrlertypes.TRX_STAKING, amount: ctrlertypes.PowerToAmount(zzverif.NondetI64In("check.power", 1, 1<<30)),
			gas: gas, gasPrice: price, nonce: 0, signer: 3}
	} else {
		chk = &zzTx{from: 1, to: 1, typ: ctrlertypes.TRX_UNSTAKING, amount: uint256.NewInt(0), gas: gas, gasPrice: price, nonce: 0, signer: 1,
			payload: &ctrlertypes.TrxPayloadUnstaking{TxHash: make([]byte, 32)}}
	}
	b.app.CheckTx(abcitypes.RequestCheckTx{Tx: b.encode(chk), Type: abcitypes.CheckTxType_New})
	for blk := 2; blk <= 3; blk++ {
		oa, ob := a.menuBlock(nil, true), b.menuBlock(nil, true)
		zzSameOut(oa, ob, "M4 block after a mempool check")
		for i := 0; i < 2; i++ {
			zzverif.Assert(stake.ZZCumulated(a.app.stakeCtrler, zzAddr(i)).Eq(stake.ZZCumulated(b.app.stakeCtrler, zzAddr(i))), "M4 the rewards issued by the block do not depend on mempool traffic")
		}
	}
	zzverif.Reach("M4 end")
}

// ZZ_C06_M5: an account that exists only in the block in progress.  Block 2
// pays a symbolic amount to a key holder without an account (A3 is not a
// genesis holder); before the block is committed replica B serves a CheckTx
// that involves the new account - sent by it, or paying it - and both replicas
// then finish the block and run one more.  The committed account records and
// the application hashes must not depend on the mempool traffic (round 9,
// seed C06-i).
func ZZ_C06_M5() {
	govp := ctrlertypes.Test1GovParams()
	g := zzNewGenesisBanded(3, 2, govp)
	a, b := g.start(), g.start()
	for _, n := range []*zzNode{a, b} {
		n.emptyBlock(0)
	}
	gas, price := govp.MinTrxGas(), govp.GasPrice()
	amt := zzverif.NondetU256Below("fund.amount", zzMaxBalance())
	camt := zzverif.NondetU256Below("check.amount", zzMaxBalance())
	var chk *zzTx
	if zzverif.Choose("check.kind", 2) == 0 {
		chk = &zzTx{from: 3, to: 2, typ: ctrlertypes.TRX_TRANSFER, amount: camt, gas: gas, gasPrice: price, nonce: 0, signer: 3}
	} else {
		chk = &zzTx{from: 2, to: 3, typ: ctrlertypes.TRX_TRANSFER, amount: camt, gas: gas, gasPrice: price, nonce: 0, signer: 2}
	}
	var codes [2]uint32
	var hashes [2][]byte
	for k, n := range []*zzNode{a, b} {
		n.begin(0, nil, nil)
		r := n.deliver(&zzTx{from: 1, to: 3, typ: ctrlertypes.TRX_TRANSFER, amount: amt, gas: gas, gasPrice: price, nonce: n.nonce(1), signer: 1})
		codes[k] = r.Code
		if k == 1 {
			n.app.CheckTx(abcitypes.RequestCheckTx{Tx: n.encode(chk), Type: abcitypes.CheckTxType_New})
		}
		_, hashes[k] = n.end()
	}
	zzverif.Assert(codes[0] == codes[1], "M5 same result of the funding transfer")
	zzverif.Assert(zzverif.SameBytes(hashes[0], hashes[1]), "M5 block 2: application hash does not depend on a CheckTx served while the block runs")
	if codes[0] == 0 {
		zzverif.Reach("M5 account created in the block")
	}
	for i := 0; i < 4; i++ {
		ra, rb := a.app.acctCtrler.ReadAccount(zzAddr(i)), b.app.acctCtrler.ReadAccount(zzAddr(i))
		zzverif.Assert(ra.GetNonce() == rb.GetNonce() && ra.GetBalance().Eq(rb.GetBalance()), "M5 committed account records do not depend on mempool traffic")
	}
	ha, hb := a.emptyBlock(0), b.emptyBlock(0)
	zzverif.Assert(zzverif.SameBytes(ha, hb), "M5 block 3: same application hash")
	zzverif.Reach("M5 end")
}
