package node

// C01: replica determinism.  Twin replicas in different data directories,
// with Go's map iteration order a forked choice independent per replica
// (harness run with @maporder) and a different wall clock.

import (
	ctrlertypes "github.com/rigochain/rigo-go/ctrlers/types"
	"github.com/rigochain/rigo-go/zzverif"
)

func ZZ_C01_D2() {
	govp := ctrlertypes.Test1GovParams()
	g := zzNewGenesisBanded(3, 2, govp)
	// replica A iterates every Go map in ascending key order, replica B in
	// descending or rotated order (the executor's stand-in for Go's random
	// map order; the ledger-level harness D1 forks over all permutations)
	modeB := 1 + zzverif.Choose("maporder.B", 2)
	onB := func(f func()) {
		zzverif.SetMapOrder(modeB)
		f()
		zzverif.SetMapOrder(0)
	}
	a := g.start()
	var b *zzNode
	onB(func() { b = g.start() })
	var ha, hb []byte
	var oa, ob *zzBlockOut
	for blk := 1; blk <= 2; blk++ {
		ha = a.emptyBlock(0)
		onB(func() { hb = b.emptyBlock(0) })
		zzverif.Assert(zzverif.SameBytes(ha, hb), "D2 empty block: same application hash")
	}
	m3, m4 := zzNondetMenuTx("tx3"), zzNondetMenuTx("tx4")
	oa = a.menuBlock2(m3, m4, true)
	onB(func() { ob = b.menuBlock2(m3, m4, true) })
	zzSameOut(oa, ob, "D2 block 3")
	oa = a.menuBlock(nil, false)
	onB(func() { ob = b.menuBlock(nil, false) })
	zzSameOut(oa, ob, "D2 block 4")
	zzverif.Reach("D2 end")
}
