package node

// C01: replica determinism.  Twin replicas in different data directories,
// with Go's map iteration order a forked choice independent per replica
// (harness run with @maporder) and a different wall clock.

import (
	ctrlertypes "github.com/rigochain/rigo-go/ctrlers/types"
	"github.com/rigochain/rigo-go/zzverif"
)

func ZZ_C01_D2() {
	govp := ctrlertypes.Test1GovParams()
	g := zzNewGenesisBanded(3, 2, govp)
	// replica A iterates every Go map in ascending key order, replica B in
	// descending or rotated order (the executor's stand-in for Go's random
	// map order; the ledger-level harness D1 forks over all permutations)
	modeB := 1 + zzverif.Choose("maporder.B", 2)
	onB := func(f func()) {
		zzverif.SetMapOrder(modeB)
		f()
		zzverif.SetMapOrder(0)
	}
	zzverif.SingleProc()
	a := g.start()
	var b *zzNode
	onB(func() { b = g.start() })
	// memory management is node-local too: replica B's object pools are emptied (as a
	// garbage collection does) before every transaction, replica A's never
	b.beforeTx = zzverif.PoolFlush
	var ha, hb []byte
	var oa, ob *zzBlockOut
	for blk := 1; blk <= 2; blk++ {
		ha = a.emptyBlock(0)
		onB(func() { hb = b.emptyBlock(0) })
		zzverif.Assert(zzverif.SameBytes(ha, hb), "D2 empty block: same application hash")
	}
	m3, m4 := zzNondetMenuTx("tx3"), zzNondetMenuTx("tx4")
	// wall clocks: replica A executes block 3 at an arbitrary instant t0, replica B at the
	// same instant or 4 s later; the first transaction's client-chosen time lies 2 s
	// before t0, between the two executions, or after both
	t0 := zzverif.ClockStart()
	lagB := int64(4 * zzverif.Choose("clock.lagB", 2))
	m3.time = (t0 + []int64{-2, 2, 6}[zzverif.Choose("tx3.time.offset", 3)]) * 1000000000
	zzverif.SetClock(t0)
	oa = a.menuBlock2(m3, m4, true)
	zzverif.SetClock(t0 + lagB)
	onB(func() { ob = b.menuBlock2(m3, m4, true) })
	zzSameOut(oa, ob, "D2 block 3")
	oa = a.menuBlock(nil, false)
	onB(func() { ob = b.menuBlock(nil, false) })
	zzSameOut(oa, ob, "D2 block 4")
	zzverif.Reach("D2 end")
}
