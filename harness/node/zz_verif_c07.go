package node

// C07: restart equivalence at block boundaries.  Replica B is a fresh process
// image (real constructors + Info) on a copy of replica A's data directory
// taken after a commit; both then receive the same blocks.

import (
	"github.com/holiman/uint256"
	"github.com/rigochain/rigo-go/ctrlers/stake"
	ctrlertypes "github.com/rigochain/rigo-go/ctrlers/types"
	"github.com/rigochain/rigo-go/zzverif"
	abcitypes "github.com/tendermint/tendermint/abci/types"
)

// zzRestartTx: a transaction from a small menu, built for the given replica's
// current nonces (the same symbols are used for both replicas).
type zzMenuTx struct {
	kind  int
	to    int
	power int64
	amt   *uint256.Int
	time  int64 // the client-chosen creation time carried by the transaction (arbitrary)
	gas   uint64
}

func zzNondetMenuTx(tag string) *zzMenuTx {
	m := &zzMenuTx{kind: zzverif.Choose(tag+".kind", 5)}
	m.time = zzverif.NondetI64In(tag+".time", 1, 1<<62)
	switch m.kind {
	case 1: // delegation A2 -> A0/A1
		m.to = zzverif.Choose(tag+".to", 2)
		m.power = zzverif.NondetI64In(tag+".power", 1, 1<<30)
	case 2: // transfer A2 -> A1
		m.amt = zzverif.NondetU256Below(tag+".amount", zzMaxBalance())
	case 3: // A1 unbonds its genesis stake
	case 4: // A2 deploys a contract; the gas limit may exceed the per-block EVM gas budget
		m.gas = zzverif.NondetU64In(tag+".gas", 100000, 60000000)
	}
	return m
}

func (m *zzMenuTx) build(n *zzNode) *zzTx {
	t := m.build0(n)
	if t != nil {
		t.time = m.time
	}
	return t
}

func (m *zzMenuTx) build0(n *zzNode) *zzTx {
	g := n.gov
	switch m.kind {
	case 1:
		return &zzTx{from: 2, to: m.to, typ: ctrlertypes.TRX_STAKING, amount: ctrlertypes.PowerToAmount(m.power), gas: g.MinTrxGas(), gasPrice: g.GasPrice(), nonce: n.nonce(2), signer: 2}
	case 2:
		return &zzTx{from: 2, to: 1, typ: ctrlertypes.TRX_TRANSFER, amount: m.amt, gas: g.MinTrxGas(), gasPrice: g.GasPrice(), nonce: n.nonce(2), signer: 2}
	case 3:
		return &zzTx{from: 1, to: 1, typ: ctrlertypes.TRX_UNSTAKING, amount: uint256.NewInt(0), gas: g.MinTrxGas(), gasPrice: g.GasPrice(), nonce: n.nonce(1), signer: 1,
			payload: &ctrlertypes.TrxPayloadUnstaking{TxHash: make([]byte, 32)}}
	case 4:
		return &zzTx{from: 2, to: -1, typ: ctrlertypes.TRX_CONTRACT, amount: uint256.NewInt(0), gas: m.gas, gasPrice: g.GasPrice(), nonce: n.nonce(2), signer: 2,
			payload: &ctrlertypes.TrxPayloadContract{Data: zzInitCode(0, nil)}}
	}
	return nil
}

// block runs one block: votes (A0 signs, A1 signs or not), optional menu tx.
func (n *zzNode) menuBlock(m *zzMenuTx, a1Signed bool) *zzBlockOut {
	out := &zzBlockOut{}
	var votes []abcitypes.VoteInfo
	for i := 0; i < 2; i++ {
		if d := stake.ZZDelegatee(n.app.stakeCtrler, zzAddr(i)); d != nil {
			votes = append(votes, abcitypes.VoteInfo{Validator: abcitypes.Validator{Address: zzAddr(i), Power: d.TotalPower}, SignedLastBlock: i == 0 || a1Signed})
		}
	}
	n.begin(0, votes, nil)
	if m != nil && m.kind != 0 {
		if n.beforeTx != nil {
			n.beforeTx()
		}
		r := n.deliver(m.build(n))
		out.codes, out.gasUsed, out.data = append(out.codes, r.Code), append(out.gasUsed, r.GasUsed), append(out.data, r.Data)
	}
	e := n.app.EndBlock(abcitypes.RequestEndBlock{Height: n.height})
	out.ups = e.ValidatorUpdates
	out.hash = n.app.Commit().Data
	n.outs = append(n.outs, out)
	return out
}

// menuBlock2 is menuBlock with two transactions.
func (n *zzNode) menuBlock2(m1, m2 *zzMenuTx, a1Signed bool) *zzBlockOut {
	out := &zzBlockOut{}
	var votes []abcitypes.VoteInfo
	for i := 0; i < 2; i++ {
		if d := stake.ZZDelegatee(n.app.stakeCtrler, zzAddr(i)); d != nil {
			votes = append(votes, abcitypes.VoteInfo{Validator: abcitypes.Validator{Address: zzAddr(i), Power: d.TotalPower}, SignedLastBlock: i == 0 || a1Signed})
		}
	}
	n.begin(0, votes, nil)
	for _, m := range []*zzMenuTx{m1, m2} {
		if m != nil && m.kind != 0 {
			if n.beforeTx != nil {
				n.beforeTx()
			}
			r := n.deliver(m.build(n))
			out.codes, out.gasUsed, out.data = append(out.codes, r.Code), append(out.gasUsed, r.GasUsed), append(out.data, r.Data)
		}
	}
	e := n.app.EndBlock(abcitypes.RequestEndBlock{Height: n.height})
	out.ups = e.ValidatorUpdates
	out.hash = n.app.Commit().Data
	n.outs = append(n.outs, out)
	return out
}

func ZZ_C07_R1() {
	govp := ctrlertypes.Test1GovParams()
	// a short signing window so that downtime jailing is within reach
	ctrlertypes.ZZSetSigning(govp, zzverif.NondetI64In("gov.signedBlocksWindow", 1, 3), zzverif.NondetI64In("gov.minSignedBlocks", 1, 3))
	// all ratio parameters distinct (symbolic) so that a mix-up between fields shows
	ctrlertypes.ZZSetRatios(govp, zzverif.NondetI64In("gov.minSelfStakeRatio", 1, 100), zzverif.NondetI64In("gov.maxUpdatableStakeRatio", 1, 100), zzverif.NondetI64In("gov.maxIndividualStakeRatio", 1, 100))
	a := zzNewGenesis(3, 2, govp).start()
	a.emptyBlock(0)
	a.emptyBlock(0)
	a1Signed := zzverif.Choose("a1.signs", 2) == 1
	m3, m4 := zzNondetMenuTx("tx3"), zzNondetMenuTx("tx4")
	o3 := a.menuBlock(m3, a1Signed)
	if zzverif.Thorough() && zzverif.Choose("restart.later", 2) == 1 {
		// thorough tier: one more block before the restart
		o3 = a.menuBlock(zzNondetMenuTx("tx3b"), a1Signed)
	}
	// ---- restart: a new process on a copy of the data directory
	b := &zzNode{dir: zzverif.CopyDir(a.dir), gov: govp, nvals: 2, height: a.height}
	b.app = zzOpenApp(b.dir)
	info := b.app.Info(abcitypes.RequestInfo{})
	zzverif.Assert(info.LastBlockHeight == a.height, "R1 restarted node reports the height of the last commit")
	zzverif.Assert(zzverif.SameBytes(info.LastBlockAppHash, o3.hash), "R1 restarted node reports the application hash of the last commit")
	// "all in-memory state that influences execution is reconstructible": the
	// governance parameters rebuilt by the constructors equal the running node's
	pa, pb := a.app.govCtrler.GetGovParams(), b.app.govCtrler.GetGovParams()
	ctrlertypes.ZZGovParamsAssertEq(&pa, &pb, "R1 governance parameters after restart")
	// the validator set the consensus engine holds = genesis set with every block's
	// updates applied; it is the same for both replicas up to the restart
	cumA := map[string]int64{}
	for i := 0; i < 2; i++ {
		cumA[string(zzPub(i))] = a.genesisPower(i)
	}
	for _, o := range a.outs {
		zzApplyUps(cumA, o.ups)
	}
	cumB := map[string]int64{}
	for k, v := range cumA {
		cumB[k] = v
	}
	oa4, ob4 := a.menuBlock(m4, a1Signed), b.menuBlock(m4, a1Signed)
	zzApplyUps(cumA, oa4.ups)
	zzApplyUps(cumB, ob4.ups)
	removal := false
	for _, u := range oa4.ups {
		if u.Power == 0 {
			removal = true
		}
	}
	// C10 across a restart: whatever the restarted node announces, applied to the set
	// the engine already has, must give the set the running node arrives at (the
	// known finding C07-K1 covers the case of a removal in the first block)
	zzverif.Known("C07-K1", removal)
	zzSameValSet(cumA, cumB, "R1 block h+1: validator set after applying the updates")
	zzverif.Known("C07-K1", false)
	// known finding C07-K1: lastValidators is not rebuilt on start, so the first
	// block after a restart re-announces the whole validator set
	zzverif.Known("C07-K1", true)
	zzverif.Assert(len(oa4.ups) == len(ob4.ups), "R1 block h+1: same number of validator updates")
	zzverif.Known("C07-K1", false)
	ob4.ups, oa4.ups = nil, nil
	zzSameOut(oa4, ob4, "R1 block h+1")
	oa5, ob5 := a.menuBlock(nil, a1Signed), b.menuBlock(nil, a1Signed)
	zzSameOut(oa5, ob5, "R1 block h+2")
	zzApplyUps(cumA, oa5.ups)
	zzApplyUps(cumB, ob5.ups)
	zzverif.Known("C07-K1", removal)
	zzSameValSet(cumA, cumB, "R1 block h+2: validator set after applying the updates")
	zzverif.Known("C07-K1", false)
	zzverif.Reach("R1 end")
}

func zzApplyUps(set map[string]int64, ups []abcitypes.ValidatorUpdate) {
	for _, u := range ups {
		k := string(u.PubKey.GetSecp256K1())
		if u.Power == 0 {
			delete(set, k)
		} else {
			set[k] = u.Power
		}
	}
}

func zzSameValSet(a, b map[string]int64, tag string) {
	zzverif.Assert(len(a) == len(b), tag+": same members")
	for i := 0; i < 3; i++ {
		k := string(zzPub(i))
		pa, oka := a[k]
		pb, okb := b[k]
		zzverif.Assert(oka == okb, tag+": same members")
		if oka && okb {
			zzverif.Assert(pa == pb, tag+": same power")
		}
	}
}

// ZZ_C07_R2: a restart around the periodic reward-hash checkpoint (every 10th
// ledger version): one validator signs every block (rewards are issued, the
// reward ledger changes), the node is restarted after block 9, 10, 11 or 12.
func ZZ_C07_R2() {
	govp := ctrlertypes.Test1GovParams()
	a := zzNewGenesisBanded(3, 1, govp).start()
	h := []int64{2, 9, 10, 11, 12}[zzverif.Choose("restart.height", 5)]
	a.emptyBlock(0) // block 1 carries no commit info
	var last *zzBlockOut
	last = a.menuBlock(nil, true) // block 2 (announces the genesis validator set)
	for a.height < h {
		last = a.menuBlock(nil, true)
	}
	b := &zzNode{dir: zzverif.CopyDir(a.dir), gov: govp, nvals: 1, height: a.height}
	b.app = zzOpenApp(b.dir)
	info := b.app.Info(abcitypes.RequestInfo{})
	zzverif.Assert(info.LastBlockHeight == a.height, "R2 restarted node reports the height of the last commit")
	zzverif.Assert(zzverif.SameBytes(info.LastBlockAppHash, last.hash), "R2 restarted node reports the application hash of the last commit")
	for k := 0; k < 2; k++ {
		oa, ob := a.menuBlock(nil, true), b.menuBlock(nil, true)
		oa.ups, ob.ups = nil, nil // validator updates right after a restart: C07-K1, asserted in R1
		zzSameOut(oa, ob, "R2 block after a restart near a reward-hash checkpoint")
	}
	zzverif.Event("R2", h)
	zzverif.Reach("R2 end")
}
