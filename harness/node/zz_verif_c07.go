package node

// C07: restart equivalence at block boundaries.  Replica B is a fresh process
// image (real constructors + Info) on a copy of replica A's data directory
// taken after a commit; both then receive the same blocks.

import (
	"github.com/holiman/uint256"
	"github.com/rigochain/rigo-go/ctrlers/stake"
	ctrlertypes "github.com/rigochain/rigo-go/ctrlers/types"
	"github.com/rigochain/rigo-go/zzverif"
	abcitypes "github.com/tendermint/tendermint/abci/types"
)

// zzRestartTx: a transaction from a small menu, built for the given replica's
// current nonces (the same symbols are used for both replicas).
type zzMenuTx struct {
	kind  int
	to    int
	power int64
	amt   *uint256.Int
}

func zzNondetMenuTx(tag string) *zzMenuTx {
	m := &zzMenuTx{kind: zzverif.Choose(tag+".kind", 4)}
	switch m.kind {
	case 1: // delegation A2 -> A0/A1
		m.to = zzverif.Choose(tag+".to", 2)
		m.power = zzverif.NondetI64In(tag+".power", 1, 1<<30)
	case 2: // transfer A2 -> A1
		m.amt = zzverif.NondetU256Below(tag+".amount", zzMaxBalance())
	case 3: // A1 unbonds its genesis stake
	}
	return m
}

func (m *zzMenuTx) build(n *zzNode) *zzTx {
	g := n.gov
	switch m.kind {
	case 1:
		return &zzTx{from: 2, to: m.to, typ: ctrlertypes.TRX_STAKING, amount: ctrlertypes.PowerToAmount(m.power), gas: g.MinTrxGas(), gasPrice: g.GasPrice(), nonce: n.nonce(2), signer: 2}
	case 2:
		return &zzTx{from: 2, to: 1, typ: ctrlertypes.TRX_TRANSFER, amount: m.amt, gas: g.MinTrxGas(), gasPrice: g.GasPrice(), nonce: n.nonce(2), signer: 2}
	case 3:
		return &zzTx{from: 1, to: 1, typ: ctrlertypes.TRX_UNSTAKING, amount: uint256.NewInt(0), gas: g.MinTrxGas(), gasPrice: g.GasPrice(), nonce: n.nonce(1), signer: 1,
			payload: &ctrlertypes.TrxPayloadUnstaking{TxHash: make([]byte, 32)}}
	}
	return nil
}

// block runs one block: votes (A0 signs, A1 signs or not), optional menu tx.
func (n *zzNode) menuBlock(m *zzMenuTx, a1Signed bool) *zzBlockOut {
	out := &zzBlockOut{}
	var votes []abcitypes.VoteInfo
	for i := 0; i < 2; i++ {
		if d := stake.ZZDelegatee(n.app.stakeCtrler, zzAddr(i)); d != nil {
			votes = append(votes, abcitypes.VoteInfo{Validator: abcitypes.Validator{Address: zzAddr(i), Power: d.TotalPower}, SignedLastBlock: i == 0 || a1Signed})
		}
	}
	n.begin(0, votes, nil)
	if m != nil && m.kind != 0 {
		r := n.deliver(m.build(n))
		out.codes, out.gasUsed = append(out.codes, r.Code), append(out.gasUsed, r.GasUsed)
	}
	e := n.app.EndBlock(abcitypes.RequestEndBlock{Height: n.height})
	out.ups = e.ValidatorUpdates
	out.hash = n.app.Commit().Data
	return out
}

// menuBlock2 is menuBlock with two transactions.
func (n *zzNode) menuBlock2(m1, m2 *zzMenuTx, a1Signed bool) *zzBlockOut {
	out := &zzBlockOut{}
	var votes []abcitypes.VoteInfo
	for i := 0; i < 2; i++ {
		if d := stake.ZZDelegatee(n.app.stakeCtrler, zzAddr(i)); d != nil {
			votes = append(votes, abcitypes.VoteInfo{Validator: abcitypes.Validator{Address: zzAddr(i), Power: d.TotalPower}, SignedLastBlock: i == 0 || a1Signed})
		}
	}
	n.begin(0, votes, nil)
	for _, m := range []*zzMenuTx{m1, m2} {
		if m != nil && m.kind != 0 {
			r := n.deliver(m.build(n))
			out.codes, out.gasUsed = append(out.codes, r.Code), append(out.gasUsed, r.GasUsed)
		}
	}
	e := n.app.EndBlock(abcitypes.RequestEndBlock{Height: n.height})
	out.ups = e.ValidatorUpdates
	out.hash = n.app.Commit().Data
	return out
}

func ZZ_C07_R1() {
	govp := ctrlertypes.Test1GovParams()
	// a short signing window so that downtime jailing is within reach
	ctrlertypes.ZZSetSigning(govp, zzverif.NondetI64In("gov.signedBlocksWindow", 1, 3), zzverif.NondetI64In("gov.minSignedBlocks", 1, 3))
	// all ratio parameters distinct (symbolic) so that a mix-up between fields shows
	ctrlertypes.ZZSetRatios(govp, zzverif.NondetI64In("gov.minSelfStakeRatio", 1, 100), zzverif.NondetI64In("gov.maxUpdatableStakeRatio", 1, 100), zzverif.NondetI64In("gov.maxIndividualStakeRatio", 1, 100))
	a := zzNewGenesis(3, 2, govp).start()
	a.emptyBlock(0)
	a.emptyBlock(0)
	a1Signed := zzverif.Choose("a1.signs", 2) == 1
	m3, m4 := zzNondetMenuTx("tx3"), zzNondetMenuTx("tx4")
	o3 := a.menuBlock(m3, a1Signed)
	if zzverif.Thorough() && zzverif.Choose("restart.later", 2) == 1 {
		// thorough tier: one more block before the restart
		o3 = a.menuBlock(zzNondetMenuTx("tx3b"), a1Signed)
	}
	// ---- restart: a new process on a copy of the data directory
	b := &zzNode{dir: zzverif.CopyDir(a.dir), gov: govp, nvals: 2, height: a.height}
	b.app = zzOpenApp(b.dir)
	info := b.app.Info(abcitypes.RequestInfo{})
	zzverif.Assert(info.LastBlockHeight == a.height, "R1 restarted node reports the height of the last commit")
	zzverif.Assert(zzverif.SameBytes(info.LastBlockAppHash, o3.hash), "R1 restarted node reports the application hash of the last commit")
	// "all in-memory state that influences execution is reconstructible": the
	// governance parameters rebuilt by the constructors equal the running node's
	pa, pb := a.app.govCtrler.GetGovParams(), b.app.govCtrler.GetGovParams()
	ctrlertypes.ZZGovParamsAssertEq(&pa, &pb, "R1 governance parameters after restart")
	oa4, ob4 := a.menuBlock(m4, a1Signed), b.menuBlock(m4, a1Signed)
	// known finding C07-K1: lastValidators is not rebuilt on start, so the first
	// block after a restart re-announces the whole validator set
	zzverif.Known("C07-K1", true)
	zzverif.Assert(len(oa4.ups) == len(ob4.ups), "R1 block h+1: same number of validator updates")
	zzverif.Known("C07-K1", false)
	ob4.ups, oa4.ups = nil, nil
	zzSameOut(oa4, ob4, "R1 block h+1")
	oa5, ob5 := a.menuBlock(nil, a1Signed), b.menuBlock(nil, a1Signed)
	zzSameOut(oa5, ob5, "R1 block h+2")
	zzverif.Reach("R1 end")
}
