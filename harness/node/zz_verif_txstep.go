package node

// One symbolic transaction delivered in a block on top of a symbolic genesis
// (+ a short prelude that creates a proposal / rewards where the transaction
// type needs them).  Shared by C02, C03, C04, C05 and C16.

import (
	"github.com/holiman/uint256"
	"github.com/rigochain/rigo-go/ctrlers/gov"
	"github.com/rigochain/rigo-go/ctrlers/gov/proposal"
	"github.com/rigochain/rigo-go/ctrlers/stake"
	ctrlertypes "github.com/rigochain/rigo-go/ctrlers/types"
	"github.com/rigochain/rigo-go/types"
	"github.com/rigochain/rigo-go/zzverif"
	abcitypes "github.com/tendermint/tendermint/abci/types"
	tmjson "github.com/tendermint/tendermint/libs/json"
	tmtypes "github.com/tendermint/tendermint/types"
)

const zzNAcct = 5 // A0, A1, A2, zero address, stranger

func zzAcctRef(i int) int {
	switch i {
	case 3:
		return -1
	case 4:
		return -2
	}
	return i
}

type zzState struct {
	bal    [zzNAcct]*uint256.Int
	nonce  [zzNAcct]uint64
	name   [zzNAcct]string
	doc    [zzNAcct]string
	code   [zzNAcct]bool
	dTotal [3]int64
	dSelf  [3]int64
	dN     [3]int
	frozen []int64 // power of the unbonding stake under each tracked key (-1: none)
	cum    [3]*uint256.Int
	feeSum *uint256.Int
	prop   bool
	votes  [2]int64 // tallies of the tracked proposal's first two options
	nvoted int
}

func (n *zzNode) snap(frozenKeys [][]byte, propHash []byte) *zzState {
	s := &zzState{}
	for i := 0; i < zzNAcct; i++ {
		a := n.app.acctCtrler.FindAccount(n.toAddr(zzAcctRef(i)), true)
		if a == nil {
			s.bal[i] = uint256.NewInt(0)
			continue
		}
		s.bal[i], s.nonce[i], s.name[i], s.doc[i], s.code[i] = a.GetBalance(), a.GetNonce(), a.GetName(), a.GetDocURL(), a.GetCode() != nil
	}
	for i := 0; i < 3; i++ {
		if d := stake.ZZDelegatee(n.app.stakeCtrler, zzAddr(i)); d != nil {
			s.dTotal[i], s.dSelf[i], s.dN[i] = d.TotalPower, d.SelfPower, len(d.Stakes)
		}
		s.cum[i] = stake.ZZCumulated(n.app.stakeCtrler, zzAddr(i))
	}
	for _, k := range frozenKeys {
		if f := stake.ZZFrozen(n.app.stakeCtrler, k); f != nil {
			s.frozen = append(s.frozen, f.Power)
		} else {
			s.frozen = append(s.frozen, -1)
		}
	}
	s.feeSum = uint256.NewInt(0)
	if n.app.nextBlockCtx != nil {
		s.feeSum = n.app.nextBlockCtx.SumFee()
	}
	if propHash != nil {
		if p := gov.ZZProposal(n.app.govCtrler, propHash); p != nil {
			s.prop = true
			for i := 0; i < len(p.Options) && i < 2; i++ {
				s.votes[i] = p.Options[i].Votes()
			}
			for _, v := range p.Voters {
				if v.Choice >= 0 {
					s.nvoted++
				}
			}
		}
	}
	return s
}

// total is the conserved quantity of C02: balances + 10^18 * (bonded + unbonding power) + fees in flight.
func (s *zzState) total() *uint256.Int {
	t := s.feeSum.Clone()
	for i := 0; i < zzNAcct; i++ {
		t.Add(t, s.bal[i])
	}
	p := int64(0)
	for i := 0; i < 3; i++ {
		p += s.dTotal[i]
	}
	for _, f := range s.frozen {
		if f > 0 {
			p += f
		}
	}
	return t.Add(t, ctrlertypes.PowerToAmount(p))
}

func zzAssertSame(a, b *zzState, tag string) {
	for i := 0; i < zzNAcct; i++ {
		zzverif.Assert(a.bal[i].Eq(b.bal[i]), tag+": balance unchanged")
		zzverif.Assert(a.nonce[i] == b.nonce[i], tag+": nonce unchanged")
		zzverif.Assert(a.name[i] == b.name[i] && a.doc[i] == b.doc[i], tag+": name/document unchanged")
		zzverif.Assert(a.code[i] == b.code[i], tag+": contract code marker unchanged")
	}
	for i := 0; i < 3; i++ {
		zzverif.Assert(a.dTotal[i] == b.dTotal[i] && a.dSelf[i] == b.dSelf[i] && a.dN[i] == b.dN[i], tag+": bonded stake unchanged")
		zzverif.Assert(a.cum[i].Eq(b.cum[i]), tag+": reward unchanged")
	}
	for i := range a.frozen {
		zzverif.Assert(a.frozen[i] == b.frozen[i], tag+": unbonding stake unchanged")
	}
	zzverif.Assert(a.feeSum.Eq(b.feeSum), tag+": no fee charged")
	zzverif.Assert(a.prop == b.prop && a.votes == b.votes && a.nvoted == b.nvoted, tag+": proposal and votes unchanged")
}

type zzScenario struct {
	n          *zzNode
	typ        int32
	tx         *zzTx
	raw        []byte
	txHash     []byte
	propHash   []byte
	frozenKeys [][]byte
	reqAmt     *uint256.Int
	sigOK      bool // signed by the sender's key, for this chain, not altered afterwards
	proposer   int
}

var zzTxTypes = []int32{ctrlertypes.TRX_TRANSFER, ctrlertypes.TRX_STAKING, ctrlertypes.TRX_UNSTAKING, ctrlertypes.TRX_PROPOSAL,
	ctrlertypes.TRX_VOTING, ctrlertypes.TRX_SETDOC, ctrlertypes.TRX_WITHDRAW}

// zzSetup: genesis (3 holders, validators A0 and A1), two empty blocks, and a
// prelude block that gives the later transaction something to act on.
// attack selects how the signature may be wrong (C03); with attack == false
// the transaction is honestly signed.
func zzSetup(attack bool) *zzScenario {
	govp := ctrlertypes.ZZSymGovParams("gov", ctrlertypes.ZZAllGovFields)
	n := zzNewNode(3, 2, govp)
	sc := &zzScenario{n: n}
	n.emptyBlock(0)
	n.emptyBlock(0)
	sc.typ = zzTxTypes[zzverif.Choose("tx.type", len(zzTxTypes))]
	zero32 := make([]byte, 32)
	sc.frozenKeys = [][]byte{zero32}
	// prelude block 3
	var votes []abcitypes.VoteInfo
	if sc.typ == ctrlertypes.TRX_WITHDRAW {
		d := stake.ZZDelegatee(n.app.stakeCtrler, zzAddr(0))
		votes = []abcitypes.VoteInfo{{Validator: abcitypes.Validator{Address: zzAddr(0), Power: d.TotalPower}, SignedLastBlock: true}}
	}
	n.begin(0, votes, nil)
	if sc.typ == ctrlertypes.TRX_VOTING {
		opt := zzGovOption("prelude.opt")
		start := int64(4)
		period := govp.MinVotingPeriodBlocks()
		pl := &ctrlertypes.TrxPayloadProposal{Message: "m", StartVotingHeight: start, VotingPeriodBlocks: period,
			ApplyingHeight: start + period + govp.LazyApplyingBlocks(), OptType: proposal.PROPOSAL_GOVPARAMS, Options: [][]byte{opt}}
		ptx := &zzTx{from: 0, to: -1, typ: ctrlertypes.TRX_PROPOSAL, amount: uint256.NewInt(0), gas: govp.MinTrxGas(), gasPrice: govp.GasPrice(), nonce: 0, payload: pl, signer: 0}
		praw := n.encode(ptx)
		r := n.app.DeliverTx(abcitypes.RequestDeliverTx{Tx: praw})
		zzverif.Assume(r.Code == 0) // needs balance(A0) >= fee
		sc.propHash = tmtypes.Tx(praw).Hash()
	}
	n.end()
	return sc
}

// zzNondetTx draws the transaction under test.
func (sc *zzScenario) nondetTx(attack bool) {
	n := sc.n
	t := &zzTx{typ: sc.typ}
	t.from = zzverif.Choose("tx.from", 3)
	t.signer = t.from
	switch sc.typ {
	case ctrlertypes.TRX_TRANSFER:
		t.to = []int{1, -1, -2, 0}[zzverif.Choose("tx.to", 4)]
	case ctrlertypes.TRX_STAKING:
		t.to = zzverif.Choose("tx.to", 3)
	case ctrlertypes.TRX_UNSTAKING:
		t.to = zzverif.Choose("tx.to", 2)
		h := make([]byte, 32)
		if zzverif.Choose("tx.stake.unknown", 2) == 1 {
			h[0] = 0x77
		}
		t.payload = &ctrlertypes.TrxPayloadUnstaking{TxHash: h}
	case ctrlertypes.TRX_PROPOSAL:
		t.to = []int{-1, 1}[zzverif.Choose("tx.to", 2)]
		t.payload = &ctrlertypes.TrxPayloadProposal{Message: "m", StartVotingHeight: zzverif.NondetI64In("tx.start", 0, 1<<41),
			VotingPeriodBlocks: zzverif.NondetI64In("tx.period", 0, 1<<41), ApplyingHeight: zzverif.NondetI64In("tx.applying", 0, 1<<43),
			OptType: proposal.PROPOSAL_GOVPARAMS, Options: [][]byte{zzGovOption("tx.opt")}}
	case ctrlertypes.TRX_VOTING:
		t.to = []int{-1, 1}[zzverif.Choose("tx.to", 2)]
		h := sc.propHash
		if zzverif.Choose("tx.prop.unknown", 2) == 1 {
			h = make([]byte, 32)
			h[0] = 0x55
		}
		t.payload = &ctrlertypes.TrxPayloadVoting{TxHash: h, Choice: int32(zzverif.NondetI64In("tx.choice", -1, 1))}
	case ctrlertypes.TRX_SETDOC:
		t.to = []int{-1, 1}[zzverif.Choose("tx.to", 2)]
		// name / url at the length limit and just above it
		pick := func(tag string) string {
			switch zzverif.Choose(tag, 3) {
			case 1:
				return string(zzBytesOfLen(ctrlertypes.MAX_ACCT_NAME, 'n'))
			case 2:
				return string(zzBytesOfLen(ctrlertypes.MAX_ACCT_NAME+1, 'x'))
			}
			return "doc"
		}
		t.payload = &ctrlertypes.TrxPayloadSetDoc{Name: pick("tx.name"), URL: pick("tx.url")}
	case ctrlertypes.TRX_WITHDRAW:
		t.to = -1
		sc.reqAmt = zzverif.NondetU256Below("tx.reqAmt", new(uint256.Int).Lsh(uint256.NewInt(1), 130))
		t.payload = &ctrlertypes.TrxPayloadWithdraw{ReqAmt: sc.reqAmt}
	}
	if zzverif.Thorough() {
		// full ranges: amounts up to 2^256-1 (incl. "negative" ones >= 2^255), any gas
		t.amount = zzverif.NondetU256("tx.amount")
		t.gas = zzverif.NondetU64("tx.gas")
	} else {
		t.amount = zzverif.NondetU256Below("tx.amount", new(uint256.Int).Lsh(uint256.NewInt(1), 101))
		t.gas = zzverif.NondetU64In("tx.gas", 0, 1<<42)
	}
	t.gasPrice = n.gov.GasPrice()
	if zzverif.Choose("tx.price.other", 2) == 1 {
		t.gasPrice = new(uint256.Int).Add(n.gov.GasPrice(), uint256.NewInt(1))
	}
	if zzverif.Thorough() {
		t.nonce = zzverif.NondetU64("tx.nonce")
	} else {
		t.nonce = zzverif.NondetU64In("tx.nonce", 0, 3)
	}
	sc.sigOK = true
	if attack {
		switch zzverif.Choose("tx.attack", 4) {
		case 1:
			t.signer = (t.from + 1) % 3
			sc.sigOK = false
		case 2:
			t.chain = "other-chain"
			sc.sigOK = false
		case 3:
			t.mutate = 1 + zzverif.Choose("tx.mutate", 8)
			sc.sigOK = false
		}
	}
	sc.tx = t
	sc.raw = n.encode(t)
	sc.txHash = tmtypes.Tx(sc.raw).Hash()
	sc.frozenKeys = append(sc.frozenKeys, sc.txHash)
}

// zzGovOption is a proposal option: a governance-parameter document that sets
// the slash ratio only.
func zzGovOption(tag string) []byte {
	bz, err := tmjson.Marshal(ctrlertypes.ZZSymGovParams(tag, 1<<16))
	if err != nil {
		panic(err)
	}
	return bz
}

var zzTypeName = map[int32]string{ctrlertypes.TRX_TRANSFER: "transfer", ctrlertypes.TRX_STAKING: "staking", ctrlertypes.TRX_UNSTAKING: "unstaking",
	ctrlertypes.TRX_PROPOSAL: "proposal", ctrlertypes.TRX_VOTING: "voting", ctrlertypes.TRX_SETDOC: "setdoc", ctrlertypes.TRX_WITHDRAW: "withdraw", ctrlertypes.TRX_CONTRACT: "contract"}

// reachOutcome leaves a vacuity witness per transaction type and outcome.
func (sc *zzScenario) reachOutcome(code uint32) {
	if code == 0 {
		zzverif.Reach("ok " + zzTypeName[sc.typ])
	} else {
		zzverif.Reach("rejected " + zzTypeName[sc.typ])
	}
}

func (sc *zzScenario) fee() *uint256.Int {
	return new(uint256.Int).Mul(uint256.NewInt(sc.tx.gas), sc.tx.gasPrice)
}

var _ = types.ZeroAddress
