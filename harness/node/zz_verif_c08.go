//go:build verif

package node

// C08: crash recovery.  The process "dies" immediately before the k-th durable
// write of block h (hook ledger.VerifHook, a panic that unwinds to the
// harness); a new process is started on a copy of the data directory.

import (
	"github.com/rigochain/rigo-go/ledger"
	ctrlertypes "github.com/rigochain/rigo-go/ctrlers/types"
	"github.com/rigochain/rigo-go/zzverif"
	abcitypes "github.com/tendermint/tendermint/abci/types"
)

type zzCrash struct{}

// runWithCrash executes f; the hook panics before the k-th durable write
// (k = 0: never).  It returns the number of durable writes that were reached
// and whether the process died.
func zzRunWithCrash(k int, f func()) (points []string, died bool) {
	ledger.VerifHook = func(p string) {
		points = append(points, p)
		if k > 0 && len(points) == k {
			panic(zzCrash{})
		}
	}
	defer func() {
		ledger.VerifHook = nil
		if p := recover(); p != nil {
			if _, ok := p.(zzCrash); ok {
				died = true
				return
			}
			panic(p)
		}
	}()
	f()
	return points, false
}

// ZZ_C08_K1: write inventory of one block: no durable write before Commit;
// inside Commit the application's meta record comes after every ledger
// version, the reward-hash record and the EVM state.
func ZZ_C08_K1() {
	govp := ctrlertypes.Test1GovParams()
	n := zzNewGenesisBanded(3, 2, govp).start()
	n.emptyBlock(0)
	n.emptyBlock(0)
	m := zzNondetMenuTx("tx3")
	var before, during []string
	before, _ = zzRunWithCrash(0, func() {
		n.begin(0, nil, nil)
		if m.kind != 0 {
			n.deliver(m.build(n))
		}
		n.app.EndBlock(abcitypes.RequestEndBlock{Height: n.height})
	})
	zzverif.Assert(len(before) == 0, "K1 no durable write before Commit")
	during, _ = zzRunWithCrash(0, func() { n.app.Commit() })
	zzverif.Assert(len(during) >= 9, "K1 Commit performs the expected durable writes")
	meta := -1
	for i, p := range during {
		if p == "metadb.put:bc" {
			meta = i
		}
	}
	zzverif.Assert(meta >= 0, "K1 the block context record is written")
	for i, p := range during {
		if p == "ledger.SaveVersion" || p == "evm.trie.Commit" || p == "evm.metadb.batch" || p == "metadb.put:rh" {
			zzverif.Assert(i < meta, "K1 the application meta record is written after every ledger / EVM / reward-hash write")
		}
	}
	zzverif.Event("K1", len(during))
	zzverif.Reach("K1 end")
}

// ZZ_C08_K2: crash index.
func ZZ_C08_K2() {
	govp := ctrlertypes.Test1GovParams()
	g := zzNewGenesisBanded(3, 2, govp)
	a := g.start() // never crashes
	c := g.start() // crashes in block 3
	// block 2 carries votes; A1 may have missed block 1 (the missed-block mark is
	// state that a later block of the recovered node must still know)
	a1Signed2 := zzverif.Choose("a1.signs.block2", 2) == 1
	for _, n := range []*zzNode{a, c} {
		n.emptyBlock(0)
		n.menuBlock(nil, a1Signed2)
	}
	m3, m4 := zzNondetMenuTx("tx3"), zzNondetMenuTx("tx4")
	h2 := a.app.lastBlockCtx.AppHash()
	o3 := a.menuBlock(m3, true)
	// the crashing replica: block 3 up to the k-th durable write of Commit
	const nWrites = 12
	k := 1 + zzverif.Choose("crash.at", nWrites)
	var oc3 *zzBlockOut
	pts, died := zzRunWithCrash(k, func() { oc3 = c.menuBlock(m3, true) })
	if !died {
		// fewer than k durable writes in this block: no crash happened
		zzSameOut(o3, oc3, "K2 uncrashed")
		zzverif.Reach("K2 no crash")
		return
	}
	_ = pts
	// restart on a copy of what is on disk
	b := &zzNode{dir: zzverif.CopyDir(c.dir), gov: govp, nvals: 2}
	var info abcitypes.ResponseInfo
	ok := zzNoPanic("restart after a crash", func() {
		b.app = zzOpenApp(b.dir)
		info = b.app.Info(abcitypes.RequestInfo{})
	})
	if !ok {
		return
	}
	// known finding C08-K1: the commit of a block is ~12 independent durable
	// writes without a recovery protocol; a crash strictly inside leaves the
	// stores at mixed versions
	atOld := info.LastBlockHeight == 2 && zzverif.SameBytes(info.LastBlockAppHash, h2)
	atNew := info.LastBlockHeight == 3 && zzverif.SameBytes(info.LastBlockAppHash, o3.hash)
	zzverif.Assert(atOld || atNew, "K2 after a crash the node reports the last fully committed block or the interrupted one, with its hash")
	if !(atOld || atNew) {
		return
	}
	b.height = info.LastBlockHeight
	if atOld {
		// the consensus engine replays the interrupted block.
		// known finding C08-K1: the commit of a block is ~11 independent durable
		// writes (3 gov ledgers, accounts, 3 stake ledgers, EVM trie, EVM
		// height/root batch, block context, block height) without a recovery
		// protocol: a crash after the first and before the block-context write
		// leaves the stores at mixed versions and the replay fails
		zzverif.Known("C08-K1", k >= 2 && k <= 10)
		var ob3 *zzBlockOut
		ok := zzNoPanic("replay of the interrupted block", func() { ob3 = b.menuBlock(m3, true) })
		if ok {
			// (validator updates right after a restart: known finding C07-K1)
			cp := *o3
			cp.ups, ob3.ups = nil, nil
			zzSameOut(&cp, ob3, "K2 replayed block")
		}
		zzverif.Known("C08-K1", false)
		if !ok {
			zzverif.Reach("K2 replay failed")
			return
		}
	}
	var oa4, ob4 *zzBlockOut
	oa4 = a.menuBlock(m4, true)
	if !zzNoPanic("block after recovery", func() { ob4 = b.menuBlock(m4, true) }) {
		return
	}
	// (validator updates right after a restart: known finding C07-K1)
	oa4.ups, ob4.ups = nil, nil
	zzSameOut(oa4, ob4, "K2 block after recovery")
	zzverif.Reach("K2 recovered")
}

// ZZ_C08_K3: the process dies after InitChain and before the Commit of block
// 1 (nothing of the genesis state is durable yet): on restart the node
// reports height 0, accepts InitChain again, and block 1 gives the
// application hash of a node that never crashed.
func ZZ_C08_K3() {
	govp := ctrlertypes.Test1GovParams()
	g := zzNewGenesisBanded(3, 2, govp)
	a := g.start()
	ha := a.emptyBlock(0)
	c := g.start()
	stage := zzverif.Choose("crash.stage", 3) // after InitChain | after BeginBlock | after EndBlock
	if stage >= 1 {
		c.begin(0, nil, nil)
	}
	if stage >= 2 {
		c.app.EndBlock(abcitypes.RequestEndBlock{Height: 1})
	}
	dir := zzverif.CopyDir(c.dir)
	var b *zzNode
	ok := zzNoPanic("restart before the first commit", func() {
		app := zzOpenApp(dir)
		info := app.Info(abcitypes.RequestInfo{})
		zzverif.Assert(info.LastBlockHeight == 0, "K3 nothing committed: height 0")
		b = g.startOn(app, dir)
	})
	if !ok {
		return
	}
	var hb []byte
	if zzNoPanic("block 1 after the restart", func() { hb = b.emptyBlock(0) }) {
		zzverif.Assert(zzverif.SameBytes(ha, hb), "K3 block 1 after re-initialisation: same application hash")
		zzverif.Reach("K3 end")
	}
}
