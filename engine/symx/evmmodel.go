package symx

// Assumption A-EVM: go-ethereum's state.StateDB is a journalled map of
// (balance, nonce) per address with snapshot/revert, access list and refund
// counter; core.ApplyMessage follows state_transition.go (v1.10.23: nonce
// check, buy gas, intrinsic gas, value transfer, access-list preparation,
// nonce bump, refund, zero tip under London with zero fee caps) with the
// *contract program* replaced by a small menu of behaviours chosen by a
// forked choice.  Every state access of the model goes through the
// repository's StateDBWrapper methods (real code), so the copy-in / copy-out
// bookkeeping is executed for realistic call sequences.

import (
	"fmt"
	"go/token"
	"go/types"
	"math/big"

	"golang.org/x/tools/go/ssa"
)

const (
	gethState = "github.com/ethereum/go-ethereum/core/state"
	gethCore  = "github.com/ethereum/go-ethereum/core"
	gethVM    = "github.com/ethereum/go-ethereum/core/vm"
	gethRawdb = "github.com/ethereum/go-ethereum/core/rawdb"
	gethTrie  = "github.com/ethereum/go-ethereum/trie"
)

// ---- symbolic big.Int ---------------------------------------------------------

type bigv struct{ t *Term }

func newBig(fr *frame, t *Term) value {
	var cell value
	if t.isConst() && t.c.Sign() >= 0 && t.c.BitLen() <= 64*8 {
		// concrete: a real-shaped big.Int {neg, abs nat}
		words := t.c.Bits()
		abs := make([]value, len(words))
		for i, w := range words {
			abs[i] = uint(w)
		}
		cell = structure{false, abs}
	} else {
		cell = structure{false, []value{bigv{t}}}
	}
	return &cell
}

func bigTerm(v value) *Term {
	pv, ok := v.(*value)
	if !ok {
		unsupp("big.Int value %T", v)
	}
	if pv == nil {
		nilDeref()
	}
	s := (*pv).(structure)
	abs := s[1].([]value)
	if len(abs) == 1 {
		if b, ok := abs[0].(bigv); ok {
			return b.t
		}
	}
	r := new(big.Int)
	for i := len(abs) - 1; i >= 0; i-- {
		w, ok := abs[i].(uint)
		if !ok {
			unsupp("big.Int word %T", abs[i])
		}
		r.Lsh(r, 64)
		r.Or(r, new(big.Int).SetUint64(uint64(w)))
	}
	if neg, _ := s[0].(bool); neg {
		r.Neg(r)
	}
	return IntConst(r)
}

// ---- state model --------------------------------------------------------------

type evmAcct struct {
	bal, nonce *Term
	exists     bool
	hasCode    bool
	program    int    // behaviour of the deployed code (see zzverif programs)
	third      string // the address the code calls
	// storage (concrete 256-bit values): `committed` is what GetCommittedState
	// returns (state after the last Finalise), `dirty` the journalled writes of
	// the transactions since then - as in go-ethereum's stateObject
	committed map[string]*big.Int
	dirty     map[string]*big.Int
}

func (x *evmAcct) clone() *evmAcct {
	cp := *x
	cp.committed, cp.dirty = map[string]*big.Int{}, map[string]*big.Int{}
	for k, v := range x.committed {
		cp.committed[k] = v
	}
	for k, v := range x.dirty {
		cp.dirty[k] = v
	}
	return &cp
}

func (x *evmAcct) state(slot string) *big.Int {
	if v, ok := x.dirty[slot]; ok {
		return v
	}
	return x.committedState(slot)
}

func (x *evmAcct) committedState(slot string) *big.Int {
	if v, ok := x.committed[slot]; ok {
		return v
	}
	return new(big.Int)
}

// finalise mirrors StateDB.Finalise for the modelled components: dirty storage
// becomes the committed ("original") storage of the next transaction, journal,
// revisions and the refund counter are reset.
func (m *modelStateDB) finalise() {
	for _, x := range m.accts {
		for k, v := range x.dirty {
			if x.committed == nil {
				x.committed = map[string]*big.Int{}
			}
			x.committed[k] = v
		}
		x.dirty = nil
	}
	m.journal, m.snaps = nil, map[int]int{}
	m.refund = 0
}

func hashKey(v value) string {
	a, ok := v.(array)
	if !ok {
		unsupp("hash value %T", v)
	}
	bz, ok := concreteBytes([]value(a))
	if !ok {
		unsupp("symbolic storage key / value")
	}
	return string(bz)
}

func hashArray(b *big.Int) array {
	bz := make([]byte, 32)
	b.FillBytes(bz)
	return array(bytesToValues(bz))
}

type modelStateDB struct {
	accts     map[string]*evmAcct
	journal   []func()
	snaps     map[int]int // snapshot id -> journal length
	nextSnap  int
	access    map[string]bool
	slots     map[string]bool // slot access list (address + slot)
	refund    uint64
	hist      *snap // committed history (root hash = f(history))
	pending   *snap // effects since last commit
	thash     []value
	immutable bool
	st        *modelStore
}

type modelEthDB struct {
	key  string
	hist map[string]*snap // root id -> history
}

func (m *modelStateDB) acct(a string) *evmAcct {
	if x, ok := m.accts[a]; ok {
		return x
	}
	x := &evmAcct{bal: IntConst64(0), nonce: IntConst64(0)}
	m.accts[a] = x
	return x
}

func addrKey(v value) string {
	a, ok := v.(array)
	if !ok {
		unsupp("address value %T", v)
	}
	bz, ok := concreteBytes([]value(a))
	if !ok {
		unsupp("symbolic address bytes")
	}
	return string(bz)
}

func addrArray(a string) array {
	return array(bytesToValues([]byte(a)))
}

func unboxSDB(v value) *modelStateDB {
	pv, ok := v.(*value)
	if !ok || pv == nil {
		nilDeref()
	}
	m, ok := (*pv).(*modelStateDB)
	if !ok {
		unsupp("state.StateDB is not a model (%T)", *pv)
	}
	return m
}

func (m *modelStateDB) setBal(a string, t *Term) {
	x := m.acct(a)
	old, oe := x.bal, x.exists
	m.journal = append(m.journal, func() { x.bal, x.exists = old, oe })
	x.bal, x.exists = t, true
}

func (m *modelStateDB) setNonce(a string, t *Term) {
	x := m.acct(a)
	old, oe := x.nonce, x.exists
	m.journal = append(m.journal, func() { x.nonce, x.exists = old, oe })
	x.nonce, x.exists = t, true
}

func (m *modelStateDB) note(what string, args ...*snap) {
	e := &snap{kind: 'S', names: []string{"op"}, elems: []*snap{{kind: 'T', str: what}}}
	for i, a := range args {
		e.names = append(e.names, fmt.Sprintf("a%d", i))
		e.elems = append(e.elems, a)
	}
	old := m.pending
	m.journal = append(m.journal, func() { m.pending = old })
	n := &snap{kind: 'L'}
	if old != nil {
		n.elems = append(n.elems, old.elems...)
	}
	n.elems = append(n.elems, e)
	m.pending = n
}

// ---- calling repository / library SSA functions from a stub ---------------------

func (i *interpreter) callMethod(fr *frame, recv iface, name string, args ...value) value {
	m := i.findMethod(recv.t, name)
	if m == nil {
		unsupp("method %s not found on %s", name, recv.t)
	}
	return call(i, fr, token.NoPos, m, append([]value{recv.v}, args...))
}

func fieldIndex(t types.Type, name string) int {
	st := t.Underlying().(*types.Struct)
	for j := 0; j < st.NumFields(); j++ {
		if st.Field(j).Name() == name {
			return j
		}
	}
	unsupp("field %s not found in %s", name, t)
	return -1
}

type modelEVM struct {
	statedb  iface
	blockCtx structure
	bctxType types.Type
}

func registerEVM(ex *Explorer) {
	// ---- big.Int / uint256 bridge ------------------------------------------------
	ex.register("(*"+u256pkg+".Int).ToBig", func(fr *frame, args []value) value {
		return newBig(fr, u256Load(args[0]))
	})
	fromBig := func(must bool) func(fr *frame, args []value) value {
		return func(fr *frame, args []value) value {
			c := fr.i.ctx
			t := bigTerm(args[0])
			over := Or(Lt(t, IntConst64(0)), Ge(t, IntConst(pow2(256))))
			if c.branch(over) {
				if must {
					panic(targetPanic{iface{t: types.Typ[types.String], v: "overflow"}})
				}
				return tuple{newU256(c, Wrap(kU256, t)), true}
			}
			if must {
				return newU256(c, t)
			}
			return tuple{newU256(c, t), false}
		}
	}
	ex.register(u256pkg+".MustFromBig", fromBig(true))
	ex.register(u256pkg+".FromBig", fromBig(false))
	ex.register("(*math/big.Int).Cmp", func(fr *frame, args []value) value {
		x, y := bigTerm(args[0]), bigTerm(args[1])
		return mkScalar(fr.i.ctx, types.Int, Ite(Lt(x, y), IntConst64(-1), Ite(Gt(x, y), IntConst64(1), IntConst64(0))))
	})
	ex.register("(*math/big.Int).Sign", func(fr *frame, args []value) value {
		x := bigTerm(args[0])
		return mkScalar(fr.i.ctx, types.Int, Ite(Lt(x, IntConst64(0)), IntConst64(-1), Ite(Gt(x, IntConst64(0)), IntConst64(1), IntConst64(0))))
	})
	ex.register("math/big.NewInt", func(fr *frame, args []value) value {
		t := termOf(args[0])
		if t.isConst() && t.c.Sign() < 0 {
			var cell value = structure{true, []value{uint(new(big.Int).Neg(t.c).Uint64())}}
			return &cell
		}
		return newBig(fr, t)
	})

	// ---- databases -----------------------------------------------------------------
	ex.register(gethRawdb+".NewLevelDBDatabase", func(fr *frame, args []value) value {
		w := fr.i.ctx.world
		s := w.store(args[0].(string), "$ethdb")
		if s.open {
			return tuple{iface{}, errIface(fr, "resource temporarily unavailable")}
		}
		s.open = true
		t := types.NewPointer(namedType(fr, "github.com/ethereum/go-ethereum/ethdb/memorydb", "Database"))
		return tuple{iface{t: t, v: boxed(s)}, iface{}}
	})
	ex.register(gethState+".NewDatabase", func(fr *frame, args []value) value {
		t := types.NewPointer(namedType(fr, gethState, "cachingDB"))
		return iface{t: t, v: boxed(unboxDB(args[0].(iface).v))}
	})
	ex.register("(*"+gethState+".cachingDB).TrieDB", func(fr *frame, args []value) value {
		return boxed(unboxDB(args[0]))
	})
	ex.register("(*"+gethTrie+".Database).Commit", func(fr *frame, args []value) value {
		s := unboxDB(args[0])
		fr.i.ctx.world.durable(s.key, "trie commit")
		root := args[1].(array)
		if h, ok := root[0].(*handle); ok {
			k := "$evmstate:" + fmt.Sprint(h.id)
			if v, ok := s.mem[k]; ok {
				s.kv[k] = v
			}
		}
		return iface{}
	})
	ex.register("(*"+gethTrie+".Database).DiskDB", func(fr *frame, args []value) value {
		s := unboxDB(args[0])
		t := types.NewPointer(namedType(fr, "github.com/ethereum/go-ethereum/ethdb/memorydb", "Database"))
		return iface{t: t, v: boxed(s)}
	})
	ex.register("(*github.com/ethereum/go-ethereum/ethdb/memorydb.Database).Close", func(fr *frame, args []value) value {
		unboxDB(args[0]).open = false
		return iface{}
	})
	ex.register(gethState+".New", func(fr *frame, args []value) value {
		root := args[0].(array)
		s := unboxDB(args[1].(iface).v)
		m := &modelStateDB{accts: map[string]*evmAcct{}, snaps: map[int]int{}, access: map[string]bool{}, slots: map[string]bool{}, st: s}
		if h, ok := root[0].(*handle); ok {
			// state committed under this root: flushed to disk, or still in the
			// caching database of this process
			st, ok2 := s.kv["$evmstate:"+fmt.Sprint(h.id)]
			if !ok2 {
				st, ok2 = s.mem["$evmstate:"+fmt.Sprint(h.id)]
			}
			if !ok2 {
				return tuple{(*value)(nil), errIface(fr, "missing trie node (unknown state root)")}
			}
			saved := st[0].(*savedEVMState)
			for a, x := range saved.accts {
				m.accts[a] = x.clone()
			}
			m.hist = saved.hist
		}
		return tuple{boxed(m), iface{}}
	})
	sdb := func(n string) string { return "(*" + gethState + ".StateDB)." + n }
	ex.register(sdb("Database"), func(fr *frame, args []value) value {
		m := unboxSDB(args[0])
		t := types.NewPointer(namedType(fr, gethState, "cachingDB"))
		return iface{t: t, v: boxed(m.st)}
	})
	ex.register(sdb("Prepare"), func(fr *frame, args []value) value {
		m := unboxSDB(args[0])
		m.thash = []value(args[1].(array))
		m.access = map[string]bool{}
		m.slots = map[string]bool{}
		return nil
	})
	ex.register(sdb("Snapshot"), func(fr *frame, args []value) value {
		m := unboxSDB(args[0])
		id := m.nextSnap
		m.nextSnap++
		m.snaps[id] = len(m.journal)
		return id
	})
	ex.register(sdb("RevertToSnapshot"), func(fr *frame, args []value) value {
		m := unboxSDB(args[0])
		id := int(asInt64(args[1]))
		n, ok := m.snaps[id]
		if !ok {
			panic(targetPanic{iface{t: types.Typ[types.String], v: fmt.Sprintf("revision id %v cannot be reverted", id)}})
		}
		for j := len(m.journal) - 1; j >= n; j-- {
			m.journal[j]()
		}
		m.journal = m.journal[:n]
		for k := range m.snaps {
			if k >= id {
				delete(m.snaps, k)
			}
		}
		return nil
	})
	ex.register(sdb("GetBalance"), func(fr *frame, args []value) value {
		return newBig(fr, unboxSDB(args[0]).acct(addrKey(args[1])).bal)
	})
	ex.register(sdb("GetNonce"), func(fr *frame, args []value) value {
		return mkScalar(fr.i.ctx, types.Uint64, unboxSDB(args[0]).acct(addrKey(args[1])).nonce)
	})
	ex.register(sdb("AddBalance"), func(fr *frame, args []value) value {
		m := unboxSDB(args[0])
		a := addrKey(args[1])
		m.setBal(a, Add(m.acct(a).bal, bigTerm(args[2])))
		return nil
	})
	ex.register(sdb("SubBalance"), func(fr *frame, args []value) value {
		m := unboxSDB(args[0])
		a := addrKey(args[1])
		m.setBal(a, Sub(m.acct(a).bal, bigTerm(args[2])))
		return nil
	})
	ex.register(sdb("SetNonce"), func(fr *frame, args []value) value {
		unboxSDB(args[0]).setNonce(addrKey(args[1]), termOf(args[2]))
		return nil
	})
	ex.register(sdb("Exist"), func(fr *frame, args []value) value {
		return unboxSDB(args[0]).acct(addrKey(args[1])).exists
	})
	ex.register(sdb("CreateAccount"), func(fr *frame, args []value) value {
		m := unboxSDB(args[0])
		x := m.acct(addrKey(args[1]))
		oe := x.exists
		m.journal = append(m.journal, func() { x.exists = oe })
		x.exists = true
		return nil
	})
	ex.register(sdb("GetOrNewStateObject"), func(fr *frame, args []value) value {
		m := unboxSDB(args[0])
		a := addrKey(args[1])
		x := m.acct(a)
		if !x.exists {
			oe := x.exists
			m.journal = append(m.journal, func() { x.exists = oe })
			x.exists = true
		}
		return boxed(&modelStateObj{m: m, addr: a})
	})
	ex.register("(*"+gethState+".stateObject).SetNonce", func(fr *frame, args []value) value {
		o := (*(args[0].(*value))).(*modelStateObj)
		o.m.setNonce(o.addr, termOf(args[1]))
		return nil
	})
	ex.register("(*"+gethState+".stateObject).SetBalance", func(fr *frame, args []value) value {
		o := (*(args[0].(*value))).(*modelStateObj)
		o.m.setBal(o.addr, bigTerm(args[1]))
		return nil
	})
	ex.register(sdb("AddAddressToAccessList"), func(fr *frame, args []value) value {
		m := unboxSDB(args[0])
		a := addrKey(args[1])
		if !m.access[a] {
			m.journal = append(m.journal, func() { delete(m.access, a) })
			m.access[a] = true
		}
		return nil
	})
	ex.register(sdb("AddSlotToAccessList"), func(fr *frame, args []value) value {
		m := unboxSDB(args[0])
		k := addrKey(args[1]) + "/" + hashKey(args[2])
		if !m.slots[k] {
			m.journal = append(m.journal, func() { delete(m.slots, k) })
			m.slots[k] = true
		}
		return nil
	})
	ex.register(sdb("SlotInAccessList"), func(fr *frame, args []value) value {
		m := unboxSDB(args[0])
		a := addrKey(args[1])
		return tuple{m.access[a], m.slots[a+"/"+hashKey(args[2])]}
	})
	ex.register(sdb("GetState"), func(fr *frame, args []value) value {
		return hashArray(unboxSDB(args[0]).acct(addrKey(args[1])).state(hashKey(args[2])))
	})
	ex.register(sdb("GetCommittedState"), func(fr *frame, args []value) value {
		return hashArray(unboxSDB(args[0]).acct(addrKey(args[1])).committedState(hashKey(args[2])))
	})
	ex.register(sdb("SetState"), func(fr *frame, args []value) value {
		m := unboxSDB(args[0])
		x := m.acct(addrKey(args[1]))
		k := hashKey(args[2])
		nv := new(big.Int).SetBytes([]byte(hashKey(args[3])))
		old, had := x.dirty[k]
		if x.state(k).Cmp(nv) == 0 {
			return nil // as in stateObject.SetState: no journal entry for a no-op
		}
		m.journal = append(m.journal, func() {
			if had {
				x.dirty[k] = old
			} else {
				delete(x.dirty, k)
			}
		})
		if x.dirty == nil {
			x.dirty = map[string]*big.Int{}
		}
		x.dirty[k] = nv
		m.note("sstore", &snap{kind: 'T', str: addrKey(args[1])}, &snap{kind: 'T', str: k}, &snap{kind: 'T', str: nv.String()})
		return nil
	})
	ex.register(sdb("AddRefund"), func(fr *frame, args []value) value {
		m := unboxSDB(args[0])
		old := m.refund
		m.journal = append(m.journal, func() { m.refund = old })
		m.refund += uint64(asInt64(args[1]))
		return nil
	})
	ex.register(sdb("SubRefund"), func(fr *frame, args []value) value {
		m := unboxSDB(args[0])
		g := uint64(asInt64(args[1]))
		if g > m.refund {
			panic(targetPanic{iface{t: types.Typ[types.String], v: fmt.Sprintf("Refund counter below zero (gas: %d > refund: %d)", g, m.refund)}})
		}
		old := m.refund
		m.journal = append(m.journal, func() { m.refund = old })
		m.refund -= g
		return nil
	})
	ex.register(sdb("AddressInAccessList"), func(fr *frame, args []value) value {
		return unboxSDB(args[0]).access[addrKey(args[1])]
	})
	ex.register(sdb("PrepareAccessList"), func(fr *frame, args []value) value {
		m := unboxSDB(args[0])
		add := func(a string) {
			if !m.access[a] {
				m.journal = append(m.journal, func() { delete(m.access, a) })
				m.access[a] = true
			}
		}
		add(addrKey(args[1]))
		if p := args[2].(*value); p != nil {
			add(addrKey(*p))
		}
		for _, pc := range args[3].([]value) {
			add(addrKey(pc))
		}
		return nil
	})
	ex.register(sdb("GetRefund"), func(fr *frame, args []value) value { return unboxSDB(args[0]).refund })
	ex.register(sdb("Finalise"), func(fr *frame, args []value) value {
		unboxSDB(args[0]).finalise()
		return nil
	})
	ex.register(sdb("GetLogs"), func(fr *frame, args []value) value { return []value(nil) })
	ex.register(sdb("GetCode"), func(fr *frame, args []value) value { return []value(nil) })
	ex.register(sdb("GetCodeHash"), func(fr *frame, args []value) value { return zero(namedType(fr, "github.com/ethereum/go-ethereum/common", "Hash")) })
	ex.register(sdb("IntermediateRoot"), func(fr *frame, args []value) value {
		unsupp("IntermediateRoot (pre-Byzantium path)")
		return nil
	})
	ex.register(sdb("Commit"), func(fr *frame, args []value) value {
		m := unboxSDB(args[0])
		m.finalise() // Commit -> IntermediateRoot -> Finalise
		h := &snap{kind: 'L'}
		if m.hist != nil {
			h.elems = append(h.elems, m.hist.elems...)
		}
		if m.pending != nil {
			h.elems = append(h.elems, m.pending.elems...)
		}
		m.hist, m.pending = h, nil
		root := &handle{kind: "evm-root", snap: h}
		handleBytes(root)
		ht := namedType(fr, "github.com/ethereum/go-ethereum/common", "Hash")
		arr := zero(ht).(array)
		arr[0] = root
		// remember the state under this root (looked up by state.New)
		saved := &savedEVMState{accts: map[string]*evmAcct{}, hist: h}
		for a, x := range m.accts {
			saved.accts[a] = x.clone()
		}
		if m.st.mem == nil {
			m.st.mem = map[string][]value{}
		}
		m.st.mem["$evmstate:"+fmt.Sprint(root.id)] = []value{saved}
		return tuple{arr, iface{}}
	})

	// ---- the EVM --------------------------------------------------------------------
	ex.register(gethVM+".NewEVM", func(fr *frame, args []value) value {
		return boxed(&modelEVM{statedb: args[2].(iface), blockCtx: args[0].(structure), bctxType: namedType(fr, gethVM, "BlockContext")})
	})
	ex.register("(*"+gethVM+".EVM).Reset", func(fr *frame, args []value) value {
		e := (*(args[0].(*value))).(*modelEVM)
		e.statedb = args[2].(iface)
		return nil
	})
	ex.register("(*"+gethVM+".EVM).Cancelled", func(fr *frame, args []value) value { return false })
	ex.register(gethCore+".ApplyMessage", applyMessageModel)
	ex.register("github.com/ethereum/go-ethereum/crypto.CreateAddress", func(fr *frame, args []value) value {
		from := addrKey(args[0])
		out := []byte("zzC" + from)[:20]
		out[19] ^= 0x5a
		if nb, ok := concreteBig(args[1]); ok {
			out[18] ^= byte(nb.Uint64())
		}
		return addrArray(string(out))
	})
}

type modelStateObj struct {
	m    *modelStateDB
	addr string
}

type savedEVMState struct {
	accts map[string]*evmAcct
	hist  *snap
}

// applyMessageModel mirrors core.ApplyMessage / StateTransition.TransitionDb.
func applyMessageModel(fr *frame, args []value) value {
	i, c := fr.i, fr.i.ctx
	e := (*(args[0].(*value))).(*modelEVM)
	msgI := args[1].(iface)
	msg := msgI.v.(structure)
	mt := msgI.t
	fld := func(n string) value { return msg[fieldIndex(mt, n)] }
	sdbI := e.statedb
	var to *string
	if p := fld("to").(*value); p != nil {
		s := addrKey(*p)
		to = &s
	}
	from := addrKey(fld("from"))
	fromA := addrArray(from)
	nonce := termOf(fld("nonce"))
	value_ := bigTerm(fld("amount"))
	gas := termOf(fld("gasLimit"))
	price := bigTerm(fld("gasPrice"))
	isFake, _ := fld("isFake").(bool)
	data := fld("data").([]value)
	errRes := func(msg string) value { return tuple{(*value)(nil), i.newError(msg)} }
	getBal := func(a array) *Term { return bigTerm(i.callMethod(fr, sdbI, "GetBalance", a)) }
	getNonce := func(a array) *Term { return termOf(i.callMethod(fr, sdbI, "GetNonce", a)) }
	mkBig := func(t *Term) value { return newBig(fr, t) }

	// preCheck
	if !isFake {
		st := getNonce(fromA)
		if c.branch(Lt(st, nonce)) {
			return errRes("nonce too high")
		}
		if c.branch(Gt(st, nonce)) {
			return errRes("nonce too low")
		}
	}
	// London pre-check and buyGas (state_transition.go): the balance check uses
	// the fee cap, the purchase the gas price
	feeCap, tipCap := bigTerm(fld("gasFeeCap")), bigTerm(fld("gasTipCap"))
	if c.branch(Lt(feeCap, tipCap)) {
		return errRes("max priority fee per gas higher than max fee per gas")
	}
	if c.branch(Lt(getBal(fromA), Add(Mul(gas, feeCap), value_))) {
		return errRes("insufficient funds for gas * price + value")
	}
	gp := args[2].(*value)
	pool := termOf(*gp)
	if c.branch(Lt(pool, gas)) {
		return errRes("gas limit reached")
	}
	*gp = mkScalar(c, types.Uint64, Sub(pool, gas))
	i.callMethod(fr, sdbI, "SubBalance", fromA, mkBig(Mul(gas, price)))
	// intrinsic gas (real go-ethereum function on the concrete call data)
	creation := to == nil
	igFn := i.prog.ImportedPackage(gethCore).Func("IntrinsicGas")
	igRes := call(i, fr, token.NoPos, igFn, []value{data, []value(nil), creation, true, true}).(tuple)
	if eI := igRes[1].(iface); eI.t != nil {
		return tuple{(*value)(nil), eI}
	}
	ig := termOf(igRes[0])
	if c.branch(Lt(gas, ig)) {
		return errRes("intrinsic gas too low")
	}
	left := Sub(gas, ig)
	// value transfer possible?
	canFn := e.blockCtx[fieldIndex(e.bctxType, "CanTransfer")]
	trFn := e.blockCtx[fieldIndex(e.bctxType, "Transfer")]
	if c.branch(Gt(value_, IntConst64(0))) {
		ok := call(i, fr, token.NoPos, canFn, []value{sdbI, fromA, mkBig(value_)})
		if !c.branch(termOf(ok)) {
			return errRes("insufficient funds for transfer")
		}
	}
	// Berlin: access list (sender, destination, precompiles 1..9)
	var pcs []value
	for k := 1; k <= 9; k++ {
		a := make([]byte, 20)
		a[19] = byte(k)
		pcs = append(pcs, addrArray(string(a)))
	}
	var toPtr *value
	var target string
	if creation {
		caFn := i.prog.ImportedPackage("github.com/ethereum/go-ethereum/crypto").Func("CreateAddress")
		target = addrKey(call(i, fr, token.NoPos, caFn, []value{fromA, fld("nonce")}))
	} else {
		target = *to
		var cell value = addrArray(target)
		toPtr = &cell
	}
	i.callMethod(fr, sdbI, "PrepareAccessList", fromA, toPtr, pcs, []value(nil))
	targetA := addrArray(target)
	var vmErr string
	msdb, _ := unwrapModelSDB(sdbI)
	// gas left is an arbitrary but *deterministic* function of the transaction:
	// one variable per transaction hash, shared by replicas that run the same tx
	gname := "evm.gasLeft"
	if msdb != nil && msdb.thash != nil {
		if bz, ok := concreteBytes(msdb.thash); ok {
			gname = fmt.Sprintf("evm.gasLeft:%x", bz[:6])
		}
	}
	gasLeft, seen := c.nondets[gname]
	if !seen {
		gasLeft = c.nondet(gname, kU64)
	}
	c.assume(Le(gasLeft, left))
	// evmCall mirrors vm.EVM.Call for the abstract programs:
	//   0 STOP | 1 CALL(third, value 1) then STOP | 2 CALL then REVERT | 4 CALL then INVALID
	//   5 CALL(third, 0), CALL(third, 1), STOP | 6 REVERT if called without value else STOP
	//   7 storage cell: without call data RETURN slot 0, otherwise slot 0 := calldata[0:32]; gas
	//     metered exactly (EIP-2929/2200/3529 as in operations_acl.go), so UsedGas is determined
	var evmCall func(caller, addr array, val *Term, input []value, depth int) string
	exact := false      // the gas consumed by the execution is determined by the model
	var execGas uint64  // ... and is this much
	var retData []value // RETURN data of the top-level call
	runProgram := func(self array, callValue *Term, input []value, depth int) string {
		if msdb == nil {
			return ""
		}
		ac := msdb.acct(addrKey(self))
		if !ac.hasCode || ac.program == 0 || depth > 3 {
			return ""
		}
		if ac.program == 8 {
			// factory: CREATE a child from one byte of zeroed memory (init code STOP, empty
			// runtime code), RETURN the child's address (or 0 when the CREATE failed)
			caFn := i.prog.ImportedPackage("github.com/ethereum/go-ethereum/crypto").Func("CreateAddress")
			nonce := termOf(i.callMethod(fr, sdbI, "GetNonce", self))
			if !nonce.isConst() {
				nonce = IntConst(c.concretize(nonce))
			}
			child := call(i, fr, token.NoPos, caFn, []value{self, mkScalar(c, types.Uint64, nonce)}).(array)
			i.callMethod(fr, sdbI, "SetNonce", self, mkScalar(c, types.Uint64, Add(nonce, IntConst64(1))))
			if inList := i.callMethod(fr, sdbI, "AddressInAccessList", child); inList == false {
				i.callMethod(fr, sdbI, "AddAddressToAccessList", child)
			}
			word := make([]value, 32)
			for k := range word {
				word[k] = uint8(0)
			}
			cn := termOf(i.callMethod(fr, sdbI, "GetNonce", child))
			if c.branch(Eq(cn, IntConst64(0))) {
				sn := i.callMethod(fr, sdbI, "Snapshot")
				_ = sn
				i.callMethod(fr, sdbI, "CreateAccount", child)
				i.callMethod(fr, sdbI, "SetNonce", child, uint64(1))
				copy(word[12:], []value(child))
			} // else: contract address collision, CREATE pushes 0
			if depth == 0 {
				retData = word
			}
			return ""
		}
		if ac.program == 7 {
			if depth != 0 {
				unsupp("storage-cell program called from another contract")
			}
			in, ok := concreteBytes(input)
			if !ok {
				unsupp("symbolic call data for the storage-cell program")
			}
			slot0 := hashArray(new(big.Int))
			if len(in) == 0 {
				// PUSH1 7 POP CALLDATASIZE PUSH1 dest JUMPI | PUSH1 0 SLOAD PUSH1 0 MSTORE PUSH1 32 PUSH1 0 RETURN
				cost := uint64(20 + 3 + 15)
				if sl := i.callMethod(fr, sdbI, "SlotInAccessList", self, slot0).(tuple); sl[1] == false {
					i.callMethod(fr, sdbI, "AddSlotToAccessList", self, slot0)
					cost += 2100
				} else {
					cost += 100
				}
				if c.branch(Lt(left, IntConst64(int64(cost)))) {
					return "out of gas"
				}
				exact, execGas = true, cost
				retData = []value(i.callMethod(fr, sdbI, "GetState", self, slot0).(array))
				return ""
			}
			// ... JUMPDEST PUSH1 0 CALLDATALOAD PUSH1 0 SSTORE STOP
			word := make([]byte, 32)
			copy(word, in)
			nv := new(big.Int).SetBytes(word)
			if c.branch(Lt(left, IntConst64(30))) {
				return "out of gas"
			}
			rem := Sub(left, IntConst64(30))
			if c.branch(Le(rem, IntConst64(2300))) {
				return "not enough gas for reentrancy sentry"
			}
			cost := uint64(0)
			if sl := i.callMethod(fr, sdbI, "SlotInAccessList", self, slot0).(tuple); sl[1] == false {
				cost = 2100
				i.callMethod(fr, sdbI, "AddSlotToAccessList", self, slot0)
			}
			asBig := func(v value) *big.Int { return new(big.Int).SetBytes([]byte(hashKey(v))) }
			cur := asBig(i.callMethod(fr, sdbI, "GetState", self, slot0))
			const clearing = 4800
			if cur.Cmp(nv) == 0 {
				cost += 100
			} else {
				orig := asBig(i.callMethod(fr, sdbI, "GetCommittedState", self, slot0))
				if orig.Cmp(cur) == 0 {
					if orig.Sign() == 0 {
						cost += 20000
					} else {
						if nv.Sign() == 0 {
							i.callMethod(fr, sdbI, "AddRefund", uint64(clearing))
						}
						cost += 2900
					}
				} else {
					if orig.Sign() != 0 {
						if cur.Sign() == 0 {
							i.callMethod(fr, sdbI, "SubRefund", uint64(clearing))
						} else if nv.Sign() == 0 {
							i.callMethod(fr, sdbI, "AddRefund", uint64(clearing))
						}
					}
					if orig.Cmp(nv) == 0 {
						if orig.Sign() == 0 {
							i.callMethod(fr, sdbI, "AddRefund", uint64(19900))
						} else {
							i.callMethod(fr, sdbI, "AddRefund", uint64(2800))
						}
					}
					cost += 100
				}
			}
			if c.branch(Lt(rem, IntConst64(int64(cost)))) {
				return "out of gas"
			}
			i.callMethod(fr, sdbI, "SetState", self, slot0, hashArray(nv))
			exact, execGas = true, 30+cost
			return ""
		}
		if ac.program == 6 {
			// callee that REVERTs when called without value and STOPs otherwise
			if c.branch(Eq(callValue, IntConst64(0))) {
				return "execution reverted"
			}
			return ""
		}
		tgt := addrArray(ac.third)
		callOnce := func(v int64) {
			if inList := i.callMethod(fr, sdbI, "AddressInAccessList", tgt); inList == false {
				i.callMethod(fr, sdbI, "AddAddressToAccessList", tgt)
			}
			_ = evmCall(self, tgt, IntConst64(v), nil, depth+1) // result ignored by the program
		}
		if ac.program == 5 {
			// call third with value 0, then again with value 1, STOP
			callOnce(0)
			callOnce(1)
			return ""
		}
		callOnce(1)
		switch ac.program {
		case 2:
			return "execution reverted"
		case 4:
			return "invalid opcode: INVALID"
		}
		return ""
	}
	evmCall = func(caller, addr array, val *Term, input []value, depth int) string {
		if c.branch(Gt(val, IntConst64(0))) {
			ok := call(i, fr, token.NoPos, canFn, []value{sdbI, caller, mkBig(val)})
			if !c.branch(termOf(ok)) {
				return "insufficient balance for transfer"
			}
		}
		sn := i.callMethod(fr, sdbI, "Snapshot")
		if ex := i.callMethod(fr, sdbI, "Exist", addr); ex == false {
			i.callMethod(fr, sdbI, "CreateAccount", addr)
		}
		call(i, fr, token.NoPos, trFn, []value{sdbI, caller, addr, mkBig(val)})
		errS := runProgram(addr, val, input, depth)
		if errS != "" {
			i.callMethod(fr, sdbI, "RevertToSnapshot", sn)
		}
		return errS
	}
	behaviour := 0
	if creation {
		// evm.Create: nonce bump, new account, value transfer, init code = marker program
		i.callMethod(fr, sdbI, "SetNonce", fromA, mkScalar(c, types.Uint64, Wrap(kU64, Add(getNonce(fromA), IntConst64(1)))))
		i.callMethod(fr, sdbI, "AddAddressToAccessList", targetA)
		outer := i.callMethod(fr, sdbI, "Snapshot")
		i.callMethod(fr, sdbI, "CreateAccount", targetA)
		i.callMethod(fr, sdbI, "SetNonce", targetA, uint64(1))
		call(i, fr, token.NoPos, trFn, []value{sdbI, fromA, targetA, mkBig(value_)})
		prog, third, okp := parseProgram(data)
		if !okp {
			vmErr = "invalid opcode: init code is not one of the modelled programs"
			i.callMethod(fr, sdbI, "RevertToSnapshot", outer)
			gasLeft = IntConst64(0)
		} else if msdb != nil {
			ac := msdb.acct(target)
			oh, op, ot := ac.hasCode, ac.program, ac.third
			msdb.journal = append(msdb.journal, func() { ac.hasCode, ac.program, ac.third = oh, op, ot })
			ac.hasCode, ac.program, ac.third = true, prog, third
			behaviour = 100 + prog
		}
	} else {
		i.callMethod(fr, sdbI, "SetNonce", fromA, mkScalar(c, types.Uint64, Wrap(kU64, Add(getNonce(fromA), IntConst64(1)))))
		vmErr = evmCall(fromA, targetA, value_, data, 0)
		if msdb != nil {
			behaviour = msdb.acct(target).program
		}
		if vmErr != "" && vmErr != "execution reverted" {
			gasLeft = IntConst64(0)
		} else if exact && vmErr == "" {
			// metered program: gas left and the London refund (quotient 5) are determined
			gasLeft = Sub(left, IntConst64(int64(execGas)))
			if ig.isConst() {
				used := ig.c.Uint64() + execGas
				refund := asUint64(i.callMethod(fr, sdbI, "GetRefund"))
				if refund > used/5 {
					refund = used / 5
				}
				gasLeft = Add(gasLeft, IntConst64(int64(refund)))
			} else {
				unsupp("symbolic intrinsic gas with a metered program")
			}
		}
	}
	if sdb, ok := unwrapModelSDB(sdbI); ok {
		sdb.note("tx", &snap{kind: 'T', str: from}, &snap{kind: 'T', str: target}, &snap{kind: 'I', term: IntConst64(int64(behaviour))}, &snap{kind: 'U', term: value_})
	}
	// refund of unused gas; tip is zero (London, zero fee caps)
	i.callMethod(fr, sdbI, "AddBalance", fromA, mkBig(Mul(gasLeft, price)))
	*gp = mkScalar(c, types.Uint64, Add(termOf(*gp), gasLeft))
	// London: effective tip = min(tip cap, fee cap - base fee), base fee = 0
	coinbase := e.blockCtx[fieldIndex(e.bctxType, "Coinbase")]
	tip := Ite(Lt(tipCap, feeCap), tipCap, feeCap)
	i.callMethod(fr, sdbI, "AddBalance", coinbase, mkBig(Mul(Sub(gas, gasLeft), tip)))
	// result
	rt := namedType(fr, gethCore, "ExecutionResult")
	res := zero(rt).(structure)
	res[fieldIndex(rt, "UsedGas")] = mkScalar(c, types.Uint64, Sub(gas, gasLeft))
	if vmErr != "" {
		res[fieldIndex(rt, "Err")] = i.newError(vmErr)
	}
	if creation && vmErr == "" {
		res[fieldIndex(rt, "ReturnData")] = bytesToValues([]byte{0x60, 0x00})
	} else if retData != nil && vmErr == "" {
		res[fieldIndex(rt, "ReturnData")] = retData
	}
	var cell value = res
	return tuple{&cell, iface{}}
}

// parseProgram recognises the init code built by the harness
// (zzverif-style): 11 bytes of deployment prefix, then the runtime code
// 60 <id> 50 | 60 00 60 00 60 00 60 00 60 01 73 <third:20> 5A F1 50 <tail>.
func parseProgram(data []value) (int, string, bool) {
	bz, ok := concreteBytes(data)
	if !ok || len(bz) < 14 || bz[11] != 0x60 || bz[13] != 0x50 {
		return 0, "", false
	}
	id := int(bz[12])
	rt := bz[11:]
	switch id {
	case 0:
		return 0, "", true
	case 1, 2, 4, 5:
		if len(rt) < 37 {
			return 0, "", false
		}
		return id, string(rt[14:34]), true
	case 6, 7, 8:
		return id, "", true
	}
	return 0, "", false
}

// unwrapModelSDB digs the model out of a StateDBWrapper (or a bare *StateDB).
func unwrapModelSDB(v iface) (*modelStateDB, bool) {
	pv, ok := v.v.(*value)
	if !ok || pv == nil {
		return nil, false
	}
	switch x := (*pv).(type) {
	case *modelStateDB:
		return x, true
	case structure:
		for _, f := range x {
			if p, ok := f.(*value); ok && p != nil {
				if m, ok := (*p).(*modelStateDB); ok {
					return m, true
				}
			}
		}
	}
	return nil, false
}

var _ = ssa.Function{}
