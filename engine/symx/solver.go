package symx

// One long-lived SMT solver process per worker (z3 -in / cvc5 --incremental),
// driven with (reset) per path and push/pop per query.  Any "(error" line,
// "unknown" or timeout makes the answer inconclusive – never success.

import (
	"bufio"
	"fmt"
	"io"
	"math/big"
	"os/exec"
	"strings"
	"time"
)

type SatResult int

const (
	Sat SatResult = iota
	Unsat
	Unknown
)

func (r SatResult) String() string { return [...]string{"sat", "unsat", "unknown"}[r] }

type SolverStats struct {
	Sat, Unsat, Unknown int
	Retries             int
	Time                time.Duration
	Errors              []string
}

type Solver struct {
	bin       string
	args      []string
	cmd       *exec.Cmd
	in        io.WriteCloser
	out       *bufio.Reader
	timeoutMs int
	defined   map[*Term]string // term -> SMT name within the current session
	declVars  map[string]bool
	declUFs   map[string]bool
	Stats     SolverStats
	trace     io.Writer
}

func NewSolver(kind string, timeoutMs int) (*Solver, error) {
	s := &Solver{timeoutMs: timeoutMs}
	switch kind {
	case "", "z3":
		s.bin, s.args = "z3", []string{"-in", "-smt2"}
	case "z3-new":
		s.bin, s.args = "z3-new", []string{"-in", "-smt2"}
	case "cvc5":
		s.bin, s.args = "cvc5", []string{"--incremental", "--lang=smt2", "--produce-models", fmt.Sprintf("--tlimit-per=%d", timeoutMs)}
	default:
		return nil, fmt.Errorf("unknown solver %q", kind)
	}
	if err := s.start(); err != nil {
		return nil, err
	}
	return s, nil
}

func (s *Solver) start() error {
	s.cmd = exec.Command(s.bin, s.args...)
	in, err := s.cmd.StdinPipe()
	if err != nil {
		return err
	}
	out, err := s.cmd.StdoutPipe()
	if err != nil {
		return err
	}
	s.cmd.Stderr = s.cmd.Stdout
	if err := s.cmd.Start(); err != nil {
		return err
	}
	s.in, s.out = in, bufio.NewReaderSize(out, 1<<16)
	s.prelude()
	return nil
}

func (s *Solver) Close() {
	if s.cmd != nil {
		s.in.Close()
		s.cmd.Process.Kill()
		s.cmd.Wait()
		s.cmd = nil
	}
}

func (s *Solver) send(f string, a ...interface{}) {
	str := fmt.Sprintf(f, a...)
	if s.trace != nil {
		fmt.Fprintln(s.trace, str)
	}
	io.WriteString(s.in, str)
	io.WriteString(s.in, "\n")
}

func (s *Solver) prelude() {
	s.defined = map[*Term]string{}
	s.declVars = map[string]bool{}
	s.declUFs = map[string]bool{}
	if s.bin != "cvc5" {
		s.send("(set-option :timeout %d)", s.timeoutMs)
	} else {
		s.send("(set-logic ALL)")
	}
	for _, k := range allKinds {
		m := pow2(k.bits).String()
		if k.signed {
			h := pow2(k.bits - 1).String()
			s.send("(define-fun wrap_%s ((v Int)) Int (let ((m (mod v %s))) (ite (>= m %s) (- m %s) m)))", k.name, m, h, m)
		} else {
			s.send("(define-fun wrap_%s ((v Int)) Int (mod v %s))", k.name, m)
		}
	}
}

// Reset clears all assertions and definitions (start of a new path).
func (s *Solver) Reset() {
	s.send("(reset)")
	s.prelude()
}

// ref returns the SMT text naming t, emitting declarations/definitions first.
func (s *Solver) ref(t *Term) string {
	switch t.op {
	case "const":
		if t.sort == SBool {
			if t.c.Sign() != 0 {
				return "true"
			}
			return "false"
		}
		return smtInt(t.c)
	case "var":
		n := smtName(t.name)
		if !s.declVars[t.name] {
			s.declVars[t.name] = true
			if t.sort == SBool {
				s.send("(declare-const %s Bool)", n)
			} else {
				s.send("(declare-const %s Int)", n)
				if t.lo != nil {
					s.send("(assert (>= %s %s))", n, smtInt(t.lo))
				}
				if t.hi != nil {
					s.send("(assert (<= %s %s))", n, smtInt(t.hi))
				}
			}
		}
		return n
	}
	if n, ok := s.defined[t]; ok {
		return n
	}
	args := make([]string, len(t.args))
	for i, a := range t.args {
		args[i] = s.ref(a)
	}
	var body string
	switch t.op {
	case "wrap":
		body = fmt.Sprintf("(wrap_%s %s)", t.name, args[0])
	case "uf":
		n := smtName("uf_" + t.name)
		if !s.declUFs[t.name] {
			s.declUFs[t.name] = true
			s.send("(declare-fun %s (%s) Int)", n, strings.TrimSpace(strings.Repeat("Int ", len(args))))
		}
		if len(args) == 0 {
			body = n
		} else {
			body = "(" + n + " " + strings.Join(args, " ") + ")"
		}
	default:
		body = "(" + t.op + " " + strings.Join(args, " ") + ")"
	}
	name := fmt.Sprintf("t%d", t.id)
	srt := "Int"
	if t.sort == SBool {
		srt = "Bool"
	}
	s.send("(define-fun %s () %s %s)", name, srt, body)
	s.defined[t] = name
	return name
}

// Assert adds t permanently (until Reset) to the solver context.
func (s *Solver) Assert(t *Term) {
	if t.isTrue() {
		return
	}
	r := s.ref(t)
	s.send("(assert %s)", r)
}

func (s *Solver) readLine() (string, error) {
	line, err := s.out.ReadString('\n')
	return strings.TrimSpace(line), err
}

// Check decides satisfiability of the current context plus extra.
// When wantModel is non-nil and the result is Sat, the values of those
// terms are read back (still inside the push).
func (s *Solver) Check(extra *Term, wantModel []*Term) (SatResult, map[*Term]*big.Int) {
	t0 := time.Now()
	defer func() { s.Stats.Time += time.Since(t0) }()
	var refs []string
	for _, m := range wantModel {
		refs = append(refs, s.ref(m))
	}
	if extra != nil {
		r := s.ref(extra)
		s.send("(push 1)")
		s.send("(assert %s)", r)
	}
	res := Unknown
	for attempt := 0; attempt < 2; attempt++ {
		if attempt == 1 {
			// one retry with a larger budget: a loaded machine makes z3 hit its
			// wall-clock timeout on otherwise easy queries
			if s.bin == "cvc5" {
				break
			}
			s.Stats.Retries++
			s.send("(set-option :timeout %d)", 4*s.timeoutMs)
		}
		res = s.checkSatOnce()
		if attempt == 1 {
			s.send("(set-option :timeout %d)", s.timeoutMs)
		}
		if res != Unknown || s.cmd == nil {
			break
		}
	}
	if s.cmd == nil {
		s.Stats.Unknown++
		s.start()
		return Unknown, nil
	}
	if len(s.Stats.Errors) > 0 && res != Unknown {
		// an (error ...) line may mean a dropped assertion: inconclusive
		res = Unknown
	}
	var model map[*Term]*big.Int
	if res == Sat && len(refs) > 0 {
		model = map[*Term]*big.Int{}
		s.send("(get-value (%s))", strings.Join(refs, " "))
		txt := s.readSexp()
		vals := parseValues(txt)
		for i, m := range wantModel {
			if i < len(vals) {
				model[m] = vals[i]
			}
		}
	}
	if extra != nil {
		s.send("(pop 1)")
		// definitions made inside the push are gone
		// (conservatively forget everything defined after the push: we do
		// not track levels, so re-define lazily by clearing names that were
		// created for `extra` – simplest is to keep defs outside pushes:
		// ref(extra) above ran before (push 1), so all defs are at level 0.)
	}
	switch res {
	case Sat:
		s.Stats.Sat++
	case Unsat:
		s.Stats.Unsat++
	default:
		s.Stats.Unknown++
	}
	return res, model
}


// checkSatOnce sends (check-sat) and reads the verdict.
func (s *Solver) checkSatOnce() SatResult {
	s.send("(check-sat)")
	res := Unknown
	for {
		line, err := s.readLine()
		if err != nil {
			s.Stats.Errors = append(s.Stats.Errors, "solver died: "+err.Error())
			s.Close()
			return Unknown
		}
		if line == "" {
			continue
		}
		if strings.HasPrefix(line, "(error") {
			s.Stats.Errors = append(s.Stats.Errors, line)
			continue
		}
		switch line {
		case "sat":
			res = Sat
		case "unsat":
			res = Unsat
		case "unknown", "timeout":
			res = Unknown
		default:
			s.Stats.Errors = append(s.Stats.Errors, "unexpected: "+line)
			continue
		}
		break
	}
	return res
}

// readSexp reads one balanced s-expression from the solver output.
func (s *Solver) readSexp() string {
	var b strings.Builder
	depth := 0
	started := false
	for {
		c, err := s.out.ReadByte()
		if err != nil {
			return b.String()
		}
		if !started {
			if c == '(' {
				started = true
			} else if c == ' ' || c == '\n' || c == '\r' || c == '\t' {
				continue
			} else {
				// atom line (e.g. error) – read to end of line
				rest, _ := s.out.ReadString('\n')
				return string(c) + rest
			}
		}
		b.WriteByte(c)
		if c == '|' { // quoted symbol: copy verbatim
			for {
				d, err := s.out.ReadByte()
				if err != nil {
					return b.String()
				}
				b.WriteByte(d)
				if d == '|' {
					break
				}
			}
			continue
		}
		if c == '(' {
			depth++
		} else if c == ')' {
			depth--
			if depth == 0 {
				return b.String()
			}
		}
	}
}

// parseValues parses "((name val) (name val) ...)" into the list of values
// (Int as big.Int, Bool as 0/1), in order.
func parseValues(txt string) []*big.Int {
	toks := tokenize(txt)
	pos := 0
	var parse func() interface{}
	parse = func() interface{} {
		if pos >= len(toks) {
			return nil
		}
		t := toks[pos]
		pos++
		if t == "(" {
			var l []interface{}
			for pos < len(toks) && toks[pos] != ")" {
				l = append(l, parse())
			}
			pos++
			return l
		}
		return t
	}
	root, _ := parse().([]interface{})
	var eval func(x interface{}) *big.Int
	eval = func(x interface{}) *big.Int {
		switch x := x.(type) {
		case string:
			switch x {
			case "true":
				return big.NewInt(1)
			case "false":
				return big.NewInt(0)
			}
			v, ok := new(big.Int).SetString(x, 10)
			if !ok {
				return nil
			}
			return v
		case []interface{}:
			if len(x) == 2 {
				if op, ok := x[0].(string); ok && op == "-" {
					v := eval(x[1])
					if v == nil {
						return nil
					}
					return new(big.Int).Neg(v)
				}
			}
		}
		return nil
	}
	var out []*big.Int
	for _, pair := range root {
		p, ok := pair.([]interface{})
		if !ok || len(p) != 2 {
			out = append(out, nil)
			continue
		}
		out = append(out, eval(p[1]))
	}
	return out
}

func tokenize(s string) []string {
	var toks []string
	i := 0
	for i < len(s) {
		c := s[i]
		switch {
		case c == '(' || c == ')':
			toks = append(toks, string(c))
			i++
		case c == ' ' || c == '\n' || c == '\t' || c == '\r':
			i++
		case c == '|':
			j := i + 1
			for j < len(s) && s[j] != '|' {
				j++
			}
			toks = append(toks, s[i:j+1])
			i = j + 1
		default:
			j := i
			for j < len(s) && s[j] != '(' && s[j] != ')' && s[j] != ' ' && s[j] != '\n' && s[j] != '\t' && s[j] != '\r' {
				j++
			}
			toks = append(toks, s[i:j])
			i = j
		}
	}
	return toks
}
