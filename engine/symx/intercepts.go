package symx

// Intercepted functions: the harness API (package zzverif) and the
// environment stubs of DESIGN §2.6.  Every entry that is hit during a run is
// reported in the evidence as part of the claim.

import (
	"golang.org/x/tools/go/ssa"
	"go/token"
	"fmt"
	"go/types"
	"os"
	"math/big"
	"strings"
)

const zz = "github.com/rigochain/rigo-go/zzverif."

func noop(fr *frame, args []value) value { return nil }

func registerIntercepts(ex *Explorer) {
	// ---- harness API ----------------------------------------------------
	nd := func(gk types.BasicKind) func(fr *frame, args []value) value {
		return func(fr *frame, args []value) value {
			c := fr.i.ctx
			k := kindOfBasic(gk)
			t := c.nondet(args[0].(string), k)
			return symv{k: k, gk: gk, t: t, ctx: c}
		}
	}
	ex.register(zz+"NondetU64", nd(types.Uint64))
	ex.register(zz+"NondetI64", nd(types.Int64))
	ex.register(zz+"NondetI32", nd(types.Int32))
	ex.register(zz+"NondetU32", nd(types.Uint32))
	ex.register(zz+"NondetU8", nd(types.Uint8))
	ex.register(zz+"NondetI8", nd(types.Int8))
	ex.register(zz+"NondetInt", nd(types.Int))
	ex.register(zz+"NondetBool", nd(types.Bool))
	ex.register(zz+"NondetU256", func(fr *frame, args []value) value {
		c := fr.i.ctx
		t := c.nondet(args[0].(string), kU256)
		return newU256(c, t)
	})
	ndIn := func(gk types.BasicKind) func(fr *frame, args []value) value {
		return func(fr *frame, args []value) value {
			c := fr.i.ctx
			k := kindOfBasic(gk)
			t := c.nondet(args[0].(string), k)
			lo, ok1 := concreteBig(args[1])
			hi, ok2 := concreteBig(args[2])
			if !ok1 || !ok2 {
				unsupp("Nondet*In with symbolic bounds")
			}
			if lo.Cmp(t.lo) > 0 {
				t.lo = lo
			}
			if hi.Cmp(t.hi) < 0 {
				t.hi = hi
			}
			if t.lo.Cmp(t.hi) > 0 {
				panic(pathEnd{"empty range"})
			}
			return symv{k: k, gk: gk, t: t, ctx: c}
		}
	}
	ex.register(zz+"NondetI64In", ndIn(types.Int64))
	ex.register(zz+"NondetU64In", ndIn(types.Uint64))
	ex.register(zz+"NondetU256Below", func(fr *frame, args []value) value {
		c := fr.i.ctx
		t := c.nondet(args[0].(string), kU256)
		b := u256Load(args[1])
		if !b.isConst() {
			unsupp("NondetU256Below with symbolic bound")
		}
		t.hi = new(big.Int).Sub(b.c, big1)
		if t.hi.Sign() < 0 {
			panic(pathEnd{"empty range"})
		}
		return newU256(c, t)
	})
	ex.register(zz+"Thorough", func(fr *frame, args []value) value { return fr.i.ctx.ex.Thorough })
	// sync.Pool: whether Get returns a recycled object is up to the runtime (per-P caches,
	// emptied by the garbage collector).  Model: Get returns the most recently Put object
	// unless the harness has flushed the pools since (zzverif.PoolFlush; natively two GC
	// cycles), in which case it calls New.
	pools := func(c *pathCtx) map[*value][]value {
		if c.scratch["pools"] == nil {
			c.scratch["pools"] = map[*value][]value{}
		}
		return c.scratch["pools"].(map[*value][]value)
	}
	ex.register("(*sync.Pool).Put", func(fr *frame, args []value) value {
		p := args[0].(*value)
		if x, ok := args[1].(iface); ok && x.t == nil {
			return nil
		}
		m := pools(fr.i.ctx)
		m[p] = append(m[p], args[1])
		return nil
	})
	ex.register("(*sync.Pool).Get", func(fr *frame, args []value) value {
		p := args[0].(*value)
		m := pools(fr.i.ctx)
		if l := m[p]; len(l) > 0 {
			x := l[len(l)-1]
			m[p] = l[:len(l)-1]
			return x
		}
		st := (*p).(structure)
		newFn := st[fieldIndex(namedType(fr, "sync", "Pool"), "New")]
		if newFn == nil {
			return iface{}
		}
		if f, ok := newFn.(*ssa.Function); ok && f == nil {
			return iface{}
		}
		return call(fr.i, fr, token.NoPos, newFn, nil)
	})
	ex.register(zz+"PoolFlush", func(fr *frame, args []value) value {
		fr.i.ctx.scratch["pools"] = map[*value][]value{}
		return nil
	})
	ex.register(zz+"SingleProc", noop)
	// harness-controlled wall clock (see the clock stub in misc.go): ClockStart fixes the
	// clock at an arbitrary instant and returns it (seconds), SetClock moves it
	ex.register(zz+"ClockStart", func(fr *frame, args []value) value {
		c := fr.i.ctx
		t := c.nondet("clock.start", kI64)
		c.assume(And(Ge(t, IntConst64(1577836800)), Le(t, IntConst64(4000000000))))
		c.scratch["clock.fixed"] = t
		return mkScalar(c, types.Int64, t)
	})
	ex.register(zz+"SetClock", func(fr *frame, args []value) value {
		fr.i.ctx.scratch["clock.fixed"] = termOf(args[0])
		return nil
	})
	ex.register(zz+"Symbolic", func(fr *frame, args []value) value { return true })
	ex.register(zz+"Choose", func(fr *frame, args []value) value {
		c := fr.i.ctx
		n := int(asInt64(args[1]))
		// Choose is a named input as well (so that replay reproduces it)
		name := c.uniqueName(args[0].(string))
		j := c.choose(n)
		t := IntConst64(int64(j))
		c.nondets[name] = t
		c.nondetKind[name] = kI64
		c.nondetOrder = append(c.nondetOrder, name)
		return j
	})
	ex.register(zz+"Assume", func(fr *frame, args []value) value {
		fr.i.ctx.assume(termOf(args[0]))
		return nil
	})
	ex.register(zz+"Assert", func(fr *frame, args []value) value {
		fr.i.ctx.check(termOf(args[0]), args[1].(string))
		return nil
	})
	ex.register(zz+"Reach", func(fr *frame, args []value) value {
		fr.i.ctx.reached[args[0].(string)] = true
		return nil
	})
	ex.register(zz+"Known", func(fr *frame, args []value) value {
		c := fr.i.ctx
		id := args[0].(string)
		t := termOf(args[1])
		// the predicate is *set* (scoped use: Known(id,true); Assert(..); Known(id,false))
		if _, ok := c.known[id]; !ok {
			c.knownOrder = append(c.knownOrder, id)
		}
		c.known[id] = t
		return nil
	})
	ex.register(zz+"Event", func(fr *frame, args []value) value {
		c := fr.i.ctx
		var as []value
		for _, a := range args[1].([]value) {
			as = append(as, a.(iface).v)
		}
		c.events = append(c.events, EventRec{Label: args[0].(string), Args: as})
		return nil
	})
	ex.register(zz+"SetMapOrder", func(fr *frame, args []value) value {
		fr.i.ctx.mapMode = int(asInt64(args[0]))
		return nil
	})
	ex.register(zz+"TempDir", func(fr *frame, args []value) value {
		c := fr.i.ctx
		n := c.nameCount["$tmpdir"]
		c.nameCount["$tmpdir"] = n + 1
		return fmt.Sprintf("/zzverif/tmp%d", n)
	})
	ex.register(zz+"Reopen", func(fr *frame, args []value) value {
		fr.i.ctx.world.reopen(args[0].(string))
		return nil
	})
	ex.register(zz+"CopyDir", func(fr *frame, args []value) value {
		c := fr.i.ctx
		n := c.nameCount["$tmpdir"]
		c.nameCount["$tmpdir"] = n + 1
		dst := fmt.Sprintf("/zzverif/tmp%d", n)
		c.world.copyDir(args[0].(string), dst)
		return dst
	})
	ex.register(zz+"SameBytes", func(fr *frame, args []value) value {
		c := fr.i.ctx
		t := bytesEqTerm(args[0].([]value), args[1].([]value))
		if t.isFalse() && c.ex.Verbose {
			if ha, ok := handleOf(args[0].([]value)); ok {
				if hb, ok := handleOf(args[1].([]value)); ok {
					fmt.Fprintf(os.Stderr, "SameBytes differs: %s\n", snapDiff(ha.snap, hb.snap, ha.kind))
				}
			}
		}
		return mkScalar(c, types.Bool, t)
	})
	ex.register(zz+"Run", func(fr *frame, args []value) value {
		unsupp("zzverif.Run is native-only")
		return nil
	})

	// ---- sync / atomic: serial ABCI (A-TM) -------------------------------
	for _, n := range []string{
		"(*sync.Mutex).Lock", "(*sync.Mutex).Unlock", "(*sync.RWMutex).Lock", "(*sync.RWMutex).Unlock",
		"(*sync.RWMutex).RLock", "(*sync.RWMutex).RUnlock", "(*sync.WaitGroup).Add", "(*sync.WaitGroup).Done", "(*sync.WaitGroup).Wait",
	} {
		ex.register(n, noop)
	}
	ex.register("(*sync.Mutex).TryLock", func(fr *frame, args []value) value { return true })
	ex.register("(*sync.Once).Do", func(fr *frame, args []value) value {
		// Once{done atomic.Uint32 / uint32, m Mutex}: use field 0 as flag holder
		p := args[0].(*value)
		s := (*p).(structure)
		if b, ok := s[0].(bool); ok && b {
			return nil
		}
		s[0] = true
		call(fr.i, fr, 0, args[1], nil)
		return nil
	})
	ex.register("sync/atomic.CompareAndSwapInt32", func(fr *frame, args []value) value {
		p := args[0].(*value)
		if equals(types.Typ[types.Int32], *p, args[1]) {
			*p = args[2]
			return true
		}
		return false
	})
	ex.register("sync/atomic.LoadInt32", func(fr *frame, args []value) value { return *(args[0].(*value)) })
	ex.register("sync/atomic.StoreInt32", func(fr *frame, args []value) value { *(args[0].(*value)) = args[1]; return nil })
	ex.register("sync/atomic.AddInt32", func(fr *frame, args []value) value {
		p := args[0].(*value)
		*p = binopInt32Add(*p, args[1])
		return *p
	})

	// the remaining fixed-width atomics (single-threaded executor: plain memory operations)
	for _, w := range []struct {
		name string
		t    types.Type
	}{{"Int64", types.Typ[types.Int64]}, {"Uint32", types.Typ[types.Uint32]}, {"Uint64", types.Typ[types.Uint64]}, {"Uintptr", types.Typ[types.Uintptr]}} {
		w := w
		ex.register("sync/atomic.Load"+w.name, func(fr *frame, args []value) value { return *(args[0].(*value)) })
		ex.register("sync/atomic.Store"+w.name, func(fr *frame, args []value) value { *(args[0].(*value)) = args[1]; return nil })
		ex.register("sync/atomic.Swap"+w.name, func(fr *frame, args []value) value {
			p := args[0].(*value)
			old := *p
			*p = args[1]
			return old
		})
		ex.register("sync/atomic.Add"+w.name, func(fr *frame, args []value) value {
			p := args[0].(*value)
			*p = binop(token.ADD, w.t, *p, args[1])
			return *p
		})
		ex.register("sync/atomic.CompareAndSwap"+w.name, func(fr *frame, args []value) value {
			p := args[0].(*value)
			if equals(w.t, *p, args[1]) {
				*p = args[2]
				return true
			}
			return false
		})
	}
	ex.register("sync/atomic.SwapInt32", func(fr *frame, args []value) value {
		p := args[0].(*value)
		old := *p
		*p = args[1]
		return old
	})

	// ---- bytes ------------------------------------------------------------
	ex.register("bytes.Compare", func(fr *frame, args []value) value {
		return bytesCompare(fr.i.ctx, args[0].([]value), args[1].([]value))
	})
	ex.register("internal/bytealg.Compare", func(fr *frame, args []value) value {
		return bytesCompare(fr.i.ctx, args[0].([]value), args[1].([]value))
	})
	ex.register("bytes.Equal", func(fr *frame, args []value) value {
		return mkScalar(fr.i.ctx, types.Bool, bytesEqTerm(args[0].([]value), args[1].([]value)))
	})
	ex.register("internal/bytealg.Equal", func(fr *frame, args []value) value {
		return mkScalar(fr.i.ctx, types.Bool, bytesEqTerm(args[0].([]value), args[1].([]value)))
	})

	// ---- formatting: not a subject (executed natively when concrete) ------
	ex.register("fmt.Sprintf", func(fr *frame, args []value) value {
		f := args[0].(string)
		as := args[1].([]value)
		if (f == "%v" || f == "%d") && len(as) == 1 {
			if it, ok := as[0].(iface); ok {
				if sv, ok := it.v.(symv); ok && sv.k != kBool {
					return fr.i.ctx.tokenFor(sv.t) // decimal rendering of a symbolic integer
				}
			}
		}
		return sprintfStub(f, as)
	})
	ex.register("fmt.Errorf", func(fr *frame, args []value) value {
		msg := sprintfStub(args[0].(string), args[1].([]value))
		// %w: the result wraps the (first) error operand, as *fmt.wrapError does
		if f := args[0].(string); strings.Contains(f, "%w") {
			for _, a := range args[1].([]value) {
				if e, ok := a.(iface); ok && e.t != nil && fr.i.findMethod(e.t, "Error") != nil {
					wt := namedType(fr, "fmt", "wrapError")
					var cell value = structure{msg, e}
					return iface{t: types.NewPointer(wt), v: &cell}
				}
			}
		}
		return fr.i.newError(msg)
	})
	ex.register("fmt.Sprint", func(fr *frame, args []value) value {
		return sprintfStub("", args[0].([]value))
	})
	ex.register("fmt.Println", func(fr *frame, args []value) value { return tuple{0, iface{}} })
	ex.register("fmt.Printf", func(fr *frame, args []value) value { return tuple{0, iface{}} })
	ex.register("errors.New", func(fr *frame, args []value) value { return fr.i.newError(args[0].(string)) })

	registerU256(ex)
	registerStore(ex)
	registerCodec(ex)
	registerMisc(ex)
	registerEVM(ex)
	// explicit init() of the evm package patches go-ethereum's precompile
	// tables (library state that the A-EVM model does not use)
	ex.register("github.com/rigochain/rigo-go/ctrlers/vm/evm.init#1", noop)
}

func binopInt32Add(a, b value) value {
	if isSym(a) || isSym(b) {
		return symBinop(0+12 /*token.ADD*/, types.Typ[types.Int32], a, b)
	}
	return a.(int32) + b.(int32)
}

// newError builds an `error` value whose dynamic type is *errors.errorString.
func (i *interpreter) newError(msg string) value {
	pkg := i.prog.ImportedPackage("errors")
	if pkg == nil {
		unsupp("package errors not loaded")
	}
	t := pkg.Type("errorString").Object().Type()
	var cell value = structure{msg}
	return iface{t: types.NewPointer(t), v: &cell}
}

func sprintfStub(format string, args []value) string {
	var conv []interface{}
	allConcrete := true
	for _, a := range args {
		it, ok := a.(iface)
		if !ok {
			allConcrete = false
			break
		}
		switch v := it.v.(type) {
		case bool, int, int8, int16, int32, int64, uint, uint8, uint16, uint32, uint64, uintptr, string, float64:
			conv = append(conv, v)
		case []value:
			bz, ok := concreteBytes(v)
			if !ok {
				allConcrete = false
			}
			conv = append(conv, bz)
		default:
			allConcrete = false
		}
	}
	if allConcrete {
		if format == "" {
			return fmt.Sprint(conv...)
		}
		return fmt.Sprintf(format, conv...)
	}
	return format + " <args not rendered by the executor>"
}

func concreteBytes(v []value) ([]byte, bool) {
	out := make([]byte, len(v))
	for i, e := range v {
		b, ok := e.(uint8)
		if !ok {
			return nil, false
		}
		out[i] = b
	}
	return out, true
}

func bytesToValues(b []byte) []value {
	out := make([]value, len(b))
	for i, x := range b {
		out[i] = x
	}
	return out
}

// bytesEqTerm: equality of two byte strings whose elements may be concrete,
// symbolic, or opaque handles (handles compare structurally).  A string that
// is exactly one handle is compared as a whole; mixed strings elementwise.
func bytesEqTerm(a, b []value) *Term {
	if len(a) != len(b) {
		return tFalse
	}
	var cs []*Term
	for i := range a {
		ha, oka := a[i].(*handle)
		hb, okb := b[i].(*handle)
		switch {
		case oka && okb:
			if ha == hb {
				continue
			}
			if ha.kind != hb.kind {
				return tFalse
			}
			cs = append(cs, snapEq(ha.snap, hb.snap))
		case oka != okb:
			return tFalse
		default:
			cs = append(cs, Eq(termOf(a[i]), termOf(b[i])))
		}
	}
	return And(cs...)
}

// bytesCompare returns the int result of bytes.Compare; symbolic elements
// give an exact lexicographic encoding.
func bytesCompare(c *pathCtx, a, b []value) value {
	hasHandle := false
	for _, e := range append(append([]value{}, a...), b...) {
		if _, ok := e.(*handle); ok {
			hasHandle = true
		}
	}
	if hasHandle {
		// only equality is meaningful for opaque strings
		if c.branch(bytesEqTerm(a, b)) {
			return 0
		}
		return 1
	}
	n := len(a)
	if len(b) < n {
		n = len(b)
	}
	// tail result by lengths
	var res *Term
	switch {
	case len(a) < len(b):
		res = IntConst64(-1)
	case len(a) > len(b):
		res = IntConst64(1)
	default:
		res = IntConst64(0)
	}
	for i := n - 1; i >= 0; i-- {
		x, y := termOf(a[i]), termOf(b[i])
		res = Ite(Lt(x, y), IntConst64(-1), Ite(Gt(x, y), IntConst64(1), res))
	}
	return mkScalar(c, types.Int, res)
}

func valuesToString(v []value) (string, bool) {
	bz, ok := concreteBytes(v)
	return string(bz), ok
}

var _ = strings.Contains
var _ = big.NewInt
