package symx

// Model of tm-db (goleveldb back end) and cosmos/iavl MutableTree
// (assumption A-IAVL): a versioned finite map with ascending-key iteration,
// whose root hash is an injective function of the ordered write history.
// Every durable write is appended to a log (crash-point enumeration, C08).

import (
	"fmt"
	"go/token"
	"go/types"
	"sort"
	"strings"
)

const (
	tmdbPkg = "github.com/tendermint/tm-db"
	iavlPkg = "github.com/cosmos/iavl"
)

type kvPair struct {
	k string // raw key bytes as string
	v []value
}

type treeVersion struct {
	kv   map[string][]value
	hist *snap // ordered write history up to and including this version
}

type modelStore struct { // what is on "disk" for one (dir,name)
	key      string
	kv       map[string][]value // plain key/value records (MetaDB etc.)
	versions map[int64]*treeVersion
	latest   int64
	open     bool
	mem      map[string][]value // process-local cache (lost on reopen / crash)
}

type modelTree struct {
	st      *modelStore
	version int64
	working map[string][]value
	hist    *snap // 'L' list of write ops since genesis (shared prefix by reference)
	loaded  bool
}

type durableWrite struct {
	store string
	what  string
	undo  func()
}

type world struct {
	ctx    *pathCtx
	stores map[string]*modelStore
	log    []durableWrite
	crashAt int // -1: never; otherwise the index of the first durable write that is lost
}

type crashed struct{}

func newWorld(c *pathCtx) *world {
	return &world{ctx: c, stores: map[string]*modelStore{}, crashAt: -1}
}

func (w *world) store(dir, name string) *modelStore {
	k := dir + "/" + name
	if s, ok := w.stores[k]; ok {
		return s
	}
	s := &modelStore{key: k, kv: map[string][]value{}, versions: map[int64]*treeVersion{}}
	w.stores[k] = s
	return s
}

// durable registers a durable write; when the crash point is reached the
// process "dies": a crashed panic unwinds to the harness (zzverif.CrashAt).
func (w *world) durable(store, what string) {
	if w.crashAt >= 0 && len(w.log) >= w.crashAt {
		panic(targetPanic{iface{t: types.Typ[types.String], v: crashMarker}})
	}
	w.log = append(w.log, durableWrite{store: store, what: what})
}

const crashMarker = "zzverif: simulated process death"

func (w *world) reopen(dir string) {
	for k, s := range w.stores {
		if strings.HasPrefix(k, dir+"/") {
			s.open = false
			s.mem = nil
		}
	}
}

func (w *world) copyDir(src, dst string) {
	for k, s := range w.stores {
		if strings.HasPrefix(k, src+"/") {
			n := &modelStore{key: dst + k[len(src):], kv: map[string][]value{}, versions: map[int64]*treeVersion{}, latest: s.latest}
			for kk, vv := range s.kv {
				n.kv[kk] = vv
			}
			for ver, tv := range s.versions {
				n.versions[ver] = tv // immutable once saved
			}
			w.stores[n.key] = n
		}
	}
}

func keyString(b []value) string {
	bz, ok := concreteBytes(b)
	if !ok {
		unsupp("store key with symbolic bytes")
	}
	return string(bz)
}

func errIface(fr *frame, msg string) value { return fr.i.newError(msg) }

func namedType(fr *frame, pkg, name string) types.Type {
	p := fr.i.prog.ImportedPackage(pkg)
	if p == nil {
		unsupp("package %s not loaded", pkg)
	}
	m := p.Type(name)
	if m == nil {
		unsupp("type %s.%s not found", pkg, name)
	}
	return m.Object().Type()
}

func boxed(x interface{}) *value {
	var cell value = x
	return &cell
}

func unboxDB(v value) *modelStore {
	pv, ok := v.(*value)
	if !ok || pv == nil {
		nilDeref()
	}
	s, ok := (*pv).(*modelStore)
	if !ok {
		unsupp("tm-db object is not a model store (%T)", *pv)
	}
	return s
}

// A model tree is boxed as a real-shaped MutableTree struct whose embedded
// *ImmutableTree field points at the model (so that promoted methods such as
// tree.Version(), which SSA resolves through that field, still find it).
func unboxTree(v value) *modelTree {
	pv, ok := v.(*value)
	if !ok || pv == nil {
		nilDeref()
	}
	switch x := (*pv).(type) {
	case *modelTree:
		return x
	case structure:
		if inner, ok := x[0].(*value); ok && inner != nil {
			if t, ok := (*inner).(*modelTree); ok {
				return t
			}
		}
	}
	unsupp("iavl tree is not a model tree (%T)", *pv)
	return nil
}

func boxTree(fr *frame, t *modelTree) *value {
	mt := namedType(fr, iavlPkg, "MutableTree")
	st := zero(mt).(structure)
	if f := mt.Underlying().(*types.Struct).Field(0); f.Name() != "ImmutableTree" {
		unsupp("iavl.MutableTree layout changed (field 0 is %s)", f.Name())
	}
	st[0] = boxed(t)
	var cell value = st
	return &cell
}

func copyKV(m map[string][]value) map[string][]value {
	n := make(map[string][]value, len(m))
	for k, v := range m {
		n[k] = v
	}
	return n
}

func histAppend(h *snap, op string, key string, val []value, fr *frame) *snap {
	e := &snap{kind: 'S', names: []string{"op", "key", "val"}}
	e.elems = []*snap{{kind: 'T', str: op}, {kind: 'T', str: key}, nil}
	if val == nil {
		e.elems[2] = &snap{kind: 'N'}
	} else if hd, ok := handleOf(val); ok {
		e.elems[2] = &snap{kind: 'H', h: hd}
	} else {
		e.elems[2] = &snap{kind: 'B', bytes: val}
	}
	n := &snap{kind: 'L'}
	if h != nil {
		n.elems = append(n.elems, h.elems...)
	}
	n.elems = append(n.elems, e)
	return n
}

func registerStore(ex *Explorer) {
	// ---- tm-db ---------------------------------------------------------------
	ex.register(tmdbPkg+".NewDB", func(fr *frame, args []value) value {
		w := fr.i.ctx.world
		name, dir := args[0].(string), args[2].(string)
		s := w.store(dir, name)
		if s.open {
			return tuple{iface{}, errIface(fr, "resource temporarily unavailable")}
		}
		s.open = true
		t := types.NewPointer(namedType(fr, tmdbPkg, "GoLevelDB"))
		return tuple{iface{t: t, v: boxed(s)}, iface{}}
	})
	db := func(n string) string { return "(*" + tmdbPkg + ".GoLevelDB)." + n }
	ex.register(db("Get"), func(fr *frame, args []value) value {
		s := unboxDB(args[0])
		v, ok := s.kv[keyString(args[1].([]value))]
		if !ok {
			return tuple{[]value(nil), iface{}}
		}
		return tuple{v, iface{}}
	})
	ex.register(db("Has"), func(fr *frame, args []value) value {
		s := unboxDB(args[0])
		_, ok := s.kv[keyString(args[1].([]value))]
		return tuple{ok, iface{}}
	})
	set := func(fr *frame, args []value) value {
		s := unboxDB(args[0])
		k := keyString(args[1].([]value))
		fr.i.ctx.world.durable(s.key, "set "+fmt.Sprintf("%q", k))
		s.kv[k] = args[2].([]value)
		return iface{}
	}
	ex.register(db("Set"), set)
	ex.register(db("SetSync"), set)
	ex.register(db("Close"), func(fr *frame, args []value) value {
		s := unboxDB(args[0])
		s.open = false
		return iface{}
	})
	ex.register(db("NewBatch"), func(fr *frame, args []value) value {
		s := unboxDB(args[0])
		t := types.NewPointer(namedType(fr, tmdbPkg, "goLevelDBBatch"))
		return iface{t: t, v: boxed(&modelBatch{st: s})}
	})
	bt := func(n string) string { return "(*" + tmdbPkg + ".goLevelDBBatch)." + n }
	ex.register(bt("Set"), func(fr *frame, args []value) value {
		b := (*(args[0].(*value))).(*modelBatch)
		b.ops = append(b.ops, kvPair{keyString(args[1].([]value)), args[2].([]value)})
		return iface{}
	})
	wr := func(fr *frame, args []value) value {
		b := (*(args[0].(*value))).(*modelBatch)
		fr.i.ctx.world.durable(b.st.key, fmt.Sprintf("batch of %d", len(b.ops)))
		for _, op := range b.ops {
			b.st.kv[op.k] = op.v
		}
		b.ops = nil
		return iface{}
	}
	ex.register(bt("Write"), wr)
	ex.register(bt("WriteSync"), wr)
	ex.register(bt("Close"), func(fr *frame, args []value) value { return iface{} })

	// ---- iavl ------------------------------------------------------------------
	newTree := func(fr *frame, args []value) value {
		it := args[0].(iface)
		s := unboxDB(it.v)
		t := &modelTree{st: s, working: map[string][]value{}}
		return tuple{boxTree(fr, t), iface{}}
	}
	ex.register(iavlPkg+".NewMutableTree", newTree)
	ex.register(iavlPkg+".NewMutableTreeWithOpts", newTree)
	tr := func(n string) string { return "(*" + iavlPkg + ".MutableTree)." + n }
	loadVersion := func(t *modelTree, ver int64) {
		t.version = ver
		t.loaded = true
		if tv, ok := t.st.versions[ver]; ok {
			t.working = copyKV(tv.kv)
			t.hist = tv.hist
		} else {
			t.working = map[string][]value{}
			t.hist = nil
		}
	}
	ex.register(tr("Load"), func(fr *frame, args []value) value {
		t := unboxTree(args[0])
		loadVersion(t, t.st.latest)
		return tuple{t.st.latest, iface{}}
	})
	ex.register(tr("LazyLoadVersion"), func(fr *frame, args []value) value {
		t := unboxTree(args[0])
		target := asInt64(args[1])
		latest := t.st.latest
		if latest < target {
			return tuple{latest, errIface(fr, fmt.Sprintf("wanted to load target %d but only found up to %d", target, latest))}
		}
		if latest <= 0 {
			if target <= 0 {
				loadVersion(t, 0)
				return tuple{int64(0), iface{}}
			}
			return tuple{int64(0), errIface(fr, "no versions found")}
		}
		if target <= 0 {
			target = latest
		}
		if _, ok := t.st.versions[target]; !ok {
			return tuple{latest, errIface(fr, "version does not exist")}
		}
		loadVersion(t, target)
		return tuple{target, iface{}}
	})
	ex.register(tr("Version"), func(fr *frame, args []value) value { return unboxTree(args[0]).version })
	ex.register("(*"+iavlPkg+".ImmutableTree).Version", func(fr *frame, args []value) value { return unboxTree(args[0]).version })
	ex.register(tr("Get"), func(fr *frame, args []value) value {
		t := unboxTree(args[0])
		v, ok := t.working[keyString(args[1].([]value))]
		if !ok {
			return tuple{[]value(nil), iface{}}
		}
		return tuple{v, iface{}}
	})
	ex.register(tr("Has"), func(fr *frame, args []value) value {
		t := unboxTree(args[0])
		_, ok := t.working[keyString(args[1].([]value))]
		return tuple{ok, iface{}}
	})
	ex.register(tr("Set"), func(fr *frame, args []value) value {
		t := unboxTree(args[0])
		k := keyString(args[1].([]value))
		v := args[2].([]value)
		if v == nil {
			return tuple{false, errIface(fr, "attempt to store nil value")}
		}
		_, upd := t.working[k]
		t.working[k] = v
		t.hist = histAppend(t.hist, "set", k, v, fr)
		return tuple{upd, iface{}}
	})
	ex.register(tr("Remove"), func(fr *frame, args []value) value {
		t := unboxTree(args[0])
		k := keyString(args[1].([]value))
		v, ok := t.working[k]
		if !ok {
			return tuple{[]value(nil), false, iface{}}
		}
		delete(t.working, k)
		t.hist = histAppend(t.hist, "del", k, nil, fr)
		return tuple{v, true, iface{}}
	})
	ex.register(tr("Iterate"), func(fr *frame, args []value) value {
		t := unboxTree(args[0])
		keys := make([]string, 0, len(t.working))
		for k := range t.working {
			keys = append(keys, k)
		}
		sort.Strings(keys)
		for _, k := range keys {
			v, ok := t.working[k]
			if !ok {
				continue
			}
			r := call(fr.i, fr, token.NoPos, args[1], []value{bytesToValues([]byte(k)), v})
			stop := false
			switch b := r.(type) {
			case bool:
				stop = b
			case symv:
				stop = fr.i.ctx.branch(b.t)
			}
			if stop {
				return tuple{true, iface{}}
			}
		}
		return tuple{false, iface{}}
	})
	ex.register(tr("SaveVersion"), func(fr *frame, args []value) value {
		t := unboxTree(args[0])
		ver := t.version + 1
		if _, exists := t.st.versions[ver]; exists {
			return tuple{[]value(nil), ver, errIface(fr, fmt.Sprintf("version %d was already saved", ver))}
		}
		fr.i.ctx.world.durable(t.st.key, fmt.Sprintf("SaveVersion %d", ver))
		h := t.hist
		if h == nil {
			h = &snap{kind: 'L'}
		}
		t.st.versions[ver] = &treeVersion{kv: copyKV(t.working), hist: h}
		if ver > t.st.latest {
			t.st.latest = ver
		}
		t.version = ver
		root := &handle{kind: "iavl-root", snap: &snap{kind: 'S', names: []string{"store", "hist"},
			elems: []*snap{{kind: 'T', str: storeBase(t.st.key)}, h}}}
		return tuple{handleBytes(root), ver, iface{}}
	})
}

// storeBase strips the data directory: the root hash does not depend on it.
func storeBase(key string) string {
	if i := strings.LastIndex(key, "/"); i >= 0 {
		return key[i+1:]
	}
	return key
}

type modelBatch struct {
	st  *modelStore
	ops []kvPair
}
