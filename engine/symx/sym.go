package symx

// Symbolic scalar values and their operators (DESIGN §2.2, §2.3, App. A).

import (
	"fmt"
	"go/token"
	"go/types"
	"math/big"
)

// symv is a symbolic scalar: a Go integer kind (or bool) whose value is a
// term.  It is an immutable value and can be copied freely.
type symv struct {
	k   *ikind // kBool for booleans
	gk  types.BasicKind
	t   *Term
	ctx *pathCtx
}

// u256v is the content of a uint256.Int cell (stored in limb 0 of the
// [4]uint64 array, limbs 1..3 are zero) when its value is symbolic.
type u256v struct {
	t   *Term
	ctx *pathCtx
}

// unsupported is raised (as a Go panic) when the executor meets a construct
// it cannot encode; the path – and hence the bound – is then inconclusive.
type unsupported struct{ msg string }

func (u unsupported) Error() string { return "unsupported: " + u.msg }

func unsupp(f string, a ...interface{}) { panic(unsupported{fmt.Sprintf(f, a...)}) }

func kindOfBasic(k types.BasicKind) *ikind {
	switch k {
	case types.Bool, types.UntypedBool:
		return kBool
	case types.Int, types.Int64, types.UntypedInt:
		return kI64
	case types.Int8:
		return kI8
	case types.Int16:
		return kI16
	case types.Int32, types.UntypedRune:
		return kI32
	case types.Uint, types.Uint64, types.Uintptr:
		return kU64
	case types.Uint8:
		return kU8
	case types.Uint16:
		return kU16
	case types.Uint32:
		return kU32
	}
	return nil
}

func basicKindOf(t types.Type) (types.BasicKind, bool) {
	b, ok := t.Underlying().(*types.Basic)
	if !ok {
		return 0, false
	}
	k := b.Kind()
	if b.Info()&types.IsUntyped != 0 {
		k = types.Default(b).(*types.Basic).Kind()
	}
	return k, true
}

func isSym(x value) bool {
	_, ok := x.(symv)
	return ok
}

// concrete integer value -> big.Int
func concreteBig(x value) (*big.Int, bool) {
	switch x := x.(type) {
	case int:
		return big.NewInt(int64(x)), true
	case int8:
		return big.NewInt(int64(x)), true
	case int16:
		return big.NewInt(int64(x)), true
	case int32:
		return big.NewInt(int64(x)), true
	case int64:
		return big.NewInt(x), true
	case uint:
		return new(big.Int).SetUint64(uint64(x)), true
	case uint8:
		return new(big.Int).SetUint64(uint64(x)), true
	case uint16:
		return new(big.Int).SetUint64(uint64(x)), true
	case uint32:
		return new(big.Int).SetUint64(uint64(x)), true
	case uint64:
		return new(big.Int).SetUint64(x), true
	case uintptr:
		return new(big.Int).SetUint64(uint64(x)), true
	}
	return nil, false
}

// termOf returns the Int/Bool term of a (symbolic or concrete) scalar.
func termOf(x value) *Term {
	switch x := x.(type) {
	case symv:
		return x.t
	case bool:
		return BoolConst(x)
	}
	if b, ok := concreteBig(x); ok {
		return IntConst(b)
	}
	unsupp("termOf(%T)", x)
	return nil
}

// mkScalar builds a value of Go basic kind gk from a term: concrete Go value
// when the term is constant, symv otherwise.
func mkScalar(ctx *pathCtx, gk types.BasicKind, t *Term) value {
	k := kindOfBasic(gk)
	if k == nil {
		unsupp("mkScalar kind %v", gk)
	}
	if t.isConst() {
		if k == kBool {
			return t.c.Sign() != 0
		}
		return concreteOfKind(gk, t.c)
	}
	return symv{k: k, gk: gk, t: t, ctx: ctx}
}

func concreteOfKind(gk types.BasicKind, v *big.Int) value {
	k := kindOfBasic(gk)
	w := k.wrapBig(v)
	switch gk {
	case types.Int, types.UntypedInt:
		return int(w.Int64())
	case types.Int8:
		return int8(w.Int64())
	case types.Int16:
		return int16(w.Int64())
	case types.Int32, types.UntypedRune:
		return int32(w.Int64())
	case types.Int64:
		return w.Int64()
	case types.Uint:
		return uint(w.Uint64())
	case types.Uint8:
		return uint8(w.Uint64())
	case types.Uint16:
		return uint16(w.Uint64())
	case types.Uint32:
		return uint32(w.Uint64())
	case types.Uint64:
		return w.Uint64()
	case types.Uintptr:
		return uintptr(w.Uint64())
	}
	panic("concreteOfKind")
}

func ctxOf(xs ...value) *pathCtx {
	for _, x := range xs {
		switch x := x.(type) {
		case symv:
			return x.ctx
		case u256v:
			return x.ctx
		}
	}
	return nil
}

func constShift(y value) (uint, bool) {
	if b, ok := concreteBig(y); ok && b.IsUint64() && b.Uint64() < 4096 {
		return uint(b.Uint64()), true
	}
	return 0, false
}

// symBinop implements binop when at least one operand is symbolic.
// t is the static type of the left operand.
func symBinop(op token.Token, t types.Type, x, y value) value {
	ctx := ctxOf(x, y)
	gk, ok := basicKindOf(t)
	if !ok {
		unsupp("symbolic binop %s on %s", op, t)
	}
	k := kindOfBasic(gk)
	if k == nil {
		unsupp("symbolic binop %s on kind %v", op, gk)
	}
	if k == kBool {
		a, b := termOf(x), termOf(y)
		switch op {
		case token.EQL:
			return mkScalar(ctx, types.Bool, Iff(a, b))
		case token.NEQ:
			return mkScalar(ctx, types.Bool, Not(Iff(a, b)))
		case token.LAND, token.AND:
			return mkScalar(ctx, types.Bool, And(a, b))
		case token.LOR, token.OR:
			return mkScalar(ctx, types.Bool, Or(a, b))
		}
		unsupp("bool op %s", op)
	}
	switch op {
	case token.SHL, token.SHR:
		n, ok := constShift(y)
		if !ok {
			unsupp("shift by symbolic amount")
		}
		a := termOf(x)
		if op == token.SHL {
			if n >= k.bits {
				return concreteOfKind(gk, big0)
			}
			return mkScalar(ctx, gk, Wrap(k, Mul(a, IntConst(pow2(n)))))
		}
		// SHR: arithmetic for signed (floor division), logical for unsigned
		return mkScalar(ctx, gk, EDiv(a, IntConst(pow2(n))))
	}
	a, b := termOf(x), termOf(y)
	switch op {
	case token.ADD:
		return mkScalar(ctx, gk, Wrap(k, Add(a, b)))
	case token.SUB:
		return mkScalar(ctx, gk, Wrap(k, Sub(a, b)))
	case token.MUL:
		return mkScalar(ctx, gk, Wrap(k, Mul(a, b)))
	case token.QUO:
		ctx.checkDivZero(b)
		if k.signed {
			return mkScalar(ctx, gk, Wrap(k, TDiv(a, b)))
		}
		return mkScalar(ctx, gk, EDiv(a, b))
	case token.REM:
		ctx.checkDivZero(b)
		if k.signed {
			return mkScalar(ctx, gk, TRem(a, b))
		}
		return mkScalar(ctx, gk, EMod(a, b))
	case token.AND:
		// x & (2^n - 1)  ==  x mod 2^n for non-negative x
		if m, ok := maskBits(b); ok && !k.signed {
			return mkScalar(ctx, gk, EMod(a, IntConst(pow2(m))))
		}
		if m, ok := maskBits(a); ok && !k.signed {
			return mkScalar(ctx, gk, EMod(b, IntConst(pow2(m))))
		}
		unsupp("symbolic & with non-mask operand")
	case token.OR, token.XOR, token.AND_NOT:
		unsupp("symbolic bitwise %s", op)
	case token.EQL:
		return mkScalar(ctx, types.Bool, Eq(a, b))
	case token.NEQ:
		return mkScalar(ctx, types.Bool, Ne(a, b))
	case token.LSS:
		return mkScalar(ctx, types.Bool, Lt(a, b))
	case token.LEQ:
		return mkScalar(ctx, types.Bool, Le(a, b))
	case token.GTR:
		return mkScalar(ctx, types.Bool, Gt(a, b))
	case token.GEQ:
		return mkScalar(ctx, types.Bool, Ge(a, b))
	}
	unsupp("symbolic binop %s", op)
	return nil
}

func maskBits(t *Term) (uint, bool) {
	if !t.isConst() || t.c.Sign() < 0 {
		return 0, false
	}
	v := new(big.Int).Add(t.c, big1)
	if v.BitLen() > 0 && new(big.Int).And(v, t.c).Sign() == 0 {
		return uint(v.BitLen() - 1), true
	}
	return 0, false
}

func symUnop(op token.Token, x symv) value {
	switch op {
	case token.SUB:
		return mkScalar(x.ctx, x.gk, Wrap(x.k, Neg(x.t)))
	case token.NOT:
		return mkScalar(x.ctx, types.Bool, Not(x.t))
	case token.XOR:
		// ^x = -x-1 (signed) ; max-x (unsigned)
		if x.k.signed {
			return mkScalar(x.ctx, x.gk, Sub(Neg(x.t), IntConst64(1)))
		}
		return mkScalar(x.ctx, x.gk, Sub(IntConst(x.k.max()), x.t))
	}
	unsupp("symbolic unop %s", op)
	return nil
}

// symConv converts symbolic scalar x to destination basic type.
func symConv(tDst types.Type, x symv) value {
	gk, ok := basicKindOf(tDst)
	if !ok {
		unsupp("symbolic conversion to %s", tDst)
	}
	k := kindOfBasic(gk)
	if k == nil || k == kBool || x.k == kBool {
		unsupp("symbolic conversion to %s", tDst)
	}
	return mkScalar(x.ctx, gk, Wrap(k, x.t))
}
