package symx

// Engine self-test (run by MANIFEST.setup_cmd): the Int+wrap encoding of Go
// integer arithmetic, Go division semantics and the uint256 model are checked
// against native execution on boundary and random values, through the solver.

import (
	"math/big"
	"math/rand"
	"testing"
)

func solveConst(t *testing.T, s *Solver, term *Term) *big.Int {
	t.Helper()
	r, m := s.Check(nil, []*Term{term})
	if r != Sat || m[term] == nil {
		t.Fatalf("solver: %v for %s", r, term)
	}
	return m[term]
}

func TestWrapAndDivisionAgainstNative(t *testing.T) {
	s, err := NewSolver("z3", 20000)
	if err != nil {
		t.Skip("z3 not available: ", err)
	}
	defer s.Close()
	rng := rand.New(rand.NewSource(1))
	vals := []int64{0, 1, -1, 2, -2, 100, -100, 1 << 31, -(1 << 31), 1<<63 - 1, -(1 << 63), 1e18, -1e18}
	for i := 0; i < 60; i++ {
		vals = append(vals, rng.Int63()-rng.Int63())
	}
	x, y := IntVar("x", kI64), IntVar("y", kI64)
	s.Reset()
	n := 0
	for _, a := range vals[:24] {
		for _, b := range vals[:24] {
			ca, cb := IntConst64(a), IntConst64(b)
			cases := []struct {
				sym  *Term
				want int64
			}{
				{Wrap(kI64, Add(x, y)), a + b},
				{Wrap(kI64, Sub(x, y)), a - b},
				{Wrap(kI64, Mul(x, y)), a * b},
			}
			if b != 0 {
				cases = append(cases, struct {
					sym  *Term
					want int64
				}{Wrap(kI64, TDiv(x, y)), a / b}, struct {
					sym  *Term
					want int64
				}{TRem(x, y), a % b})
			}
			for _, c := range cases {
				// the symbolic term under x=a,y=b must evaluate to the native result
				bad := And(Eq(x, ca), Eq(y, cb), Ne(c.sym, IntConst64(c.want)))
				if r, _ := s.Check(bad, nil); r != Unsat {
					t.Fatalf("encoding disagrees with Go for a=%d b=%d term=%s (solver %v)", a, b, c.sym, r)
				}
				n++
			}
		}
	}
	// narrowing conversions
	for _, a := range vals {
		for _, k := range []*ikind{kI8, kI16, kI32, kU8, kU16, kU32, kU64} {
			var want *big.Int
			switch k {
			case kI8:
				want = big.NewInt(int64(int8(a)))
			case kI16:
				want = big.NewInt(int64(int16(a)))
			case kI32:
				want = big.NewInt(int64(int32(a)))
			case kU8:
				want = big.NewInt(int64(uint8(a)))
			case kU16:
				want = big.NewInt(int64(uint16(a)))
			case kU32:
				want = big.NewInt(int64(uint32(a)))
			case kU64:
				want = new(big.Int).SetUint64(uint64(a))
			}
			if got := k.wrapBig(big.NewInt(a)); got.Cmp(want) != 0 {
				t.Fatalf("wrap %s(%d) = %s, Go gives %s", k.name, a, got, want)
			}
			bad := And(Eq(x, IntConst64(a)), Ne(Wrap(k, x), IntConst(want)))
			if r, _ := s.Check(bad, nil); r != Unsat {
				t.Fatalf("solver wrap %s(%d) disagrees (%v)", k.name, a, r)
			}
			n++
		}
	}
	t.Logf("%d encoding obligations discharged, solver sat=%d unsat=%d unknown=%d", n, s.Stats.Sat, s.Stats.Unsat, s.Stats.Unknown)
	if s.Stats.Unknown != 0 || len(s.Stats.Errors) != 0 {
		t.Fatalf("solver unknown/errors: %v", s.Stats.Errors)
	}
}

func TestU256ModelAgainstBig(t *testing.T) {
	rng := rand.New(rand.NewSource(2))
	two256 := pow2(256)
	rnd := func() *big.Int {
		switch rng.Intn(5) {
		case 0:
			return big.NewInt(int64(rng.Intn(3)))
		case 1:
			return new(big.Int).Sub(two256, big.NewInt(int64(1+rng.Intn(3))))
		case 2:
			return pow2(255)
		}
		return new(big.Int).Rand(rng, two256)
	}
	for i := 0; i < 2000; i++ {
		a, b := rnd(), rnd()
		ca, cb := IntConst(a), IntConst(b)
		check := func(name string, got *Term, want *big.Int) {
			if !got.isConst() || got.c.Cmp(want) != 0 {
				t.Fatalf("%s(%s,%s) = %s want %s", name, a, b, got, want)
			}
		}
		check("add", Wrap(kU256, Add(ca, cb)), new(big.Int).Mod(new(big.Int).Add(a, b), two256))
		check("sub", Wrap(kU256, Sub(ca, cb)), new(big.Int).Mod(new(big.Int).Sub(a, b), two256))
		check("mul", Wrap(kU256, Mul(ca, cb)), new(big.Int).Mod(new(big.Int).Mul(a, b), two256))
		if b.Sign() != 0 {
			check("div", EDiv(ca, cb), new(big.Int).Div(a, b))
			check("mod", EMod(ca, cb), new(big.Int).Mod(a, b))
		}
	}
}

func TestRefineAndIntervals(t *testing.T) {
	x := IntVar("x", kI64)
	refine(And(Le(IntConst64(1), x), Le(x, IntConst64(1<<55))), true)
	if x.lo.Int64() != 1 || x.hi.Int64() != 1<<55 {
		t.Fatalf("refine: [%s,%s]", x.lo, x.hi)
	}
	// x*100 fits int64 now: no wrap term must be produced
	if w := Wrap(kI64, Mul(x, IntConst64(100))); w.op == "wrap" {
		t.Fatalf("interval arithmetic failed to elide the wrap")
	}
	if d := EDiv(Mul(x, IntConst64(1000)), IntConst64(1000)); d != x {
		t.Fatalf("(x*c)/c not simplified")
	}
}
