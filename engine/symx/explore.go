package symx

// Loading /repo with harness overlays, building SSA, and exploring all
// feasible paths of a harness function by re-execution with decision
// prefixes (DESIGN §2.1, §2.4).

import (
	"fmt"
	"go/token"
	"go/types"
	"math/big"
	"os"
	"runtime"
	"runtime/debug"
	"sort"
	"strings"
	"sync"
	"time"

	"golang.org/x/tools/go/packages"
	"golang.org/x/tools/go/ssa"
	"golang.org/x/tools/go/ssa/ssautil"
)

type HarnessSpec struct {
	Name     string // "<pkgpath>.<Func>"
	Fn       *ssa.Function
	MapOrder bool
}

type intercept struct {
	name string
	fn   func(fr *frame, args []value) value
}

type Explorer struct {
	Prog       *ssa.Program
	Pkgs       []*packages.Package
	Fset       *token.FileSet
	RepoPrefix string

	MaxSteps    int64
	MaxPaths    int
	Workers     int
	SolverKind  string
	TimeoutMs   int
	KnownActive map[string]bool
	SampleMax   int
	Verbose     bool
	Thorough    bool
	TraceSMT    bool
	Deadline    time.Time

	intercepts map[string]*intercept
	icache     sync.Map // *ssa.Function -> *intercept (or nilIntercept)
	initAllow  map[string]bool
	rtErrStr   types.Type
	reflOnce   sync.Once
	proto      *interpreter
}

var nilIntercept = &intercept{}

// Load type-checks patterns under dir with the given overlay and builds SSA.
func Load(dir string, overlay map[string][]byte, patterns []string) (*Explorer, error) {
	cfg := &packages.Config{
		Mode:       packages.LoadAllSyntax,
		Dir:        dir,
		Overlay:    overlay,
		BuildFlags: []string{"-tags=verif,math_big_pure_go"}, // math/big without assembly: its arithmetic is interpretable
		Env:        append(os.Environ(), "GOFLAGS=-mod=mod", "GOPROXY=off", "GOSUMDB=off", "GOTOOLCHAIN=local"),
	}
	pkgs, err := packages.Load(cfg, patterns...)
	if err != nil {
		return nil, err
	}
	var errs []string
	packages.Visit(pkgs, nil, func(p *packages.Package) {
		for _, e := range p.Errors {
			errs = append(errs, e.Error())
		}
	})
	if len(errs) > 0 {
		return nil, fmt.Errorf("package load errors:\n%s", strings.Join(errs, "\n"))
	}
	prog, _ := ssautil.AllPackages(pkgs, ssa.InstantiateGenerics|ssa.SanityCheckFunctions*0)
	prog.Build()
	ex := &Explorer{
		Prog: prog, Pkgs: pkgs, Fset: prog.Fset,
		MaxSteps: 20_000_000, MaxPaths: 200000, Workers: runtime.NumCPU(), TimeoutMs: 60000,
		KnownActive: map[string]bool{}, SampleMax: 400,
		intercepts: map[string]*intercept{}, initAllow: map[string]bool{},
	}
	rt := prog.ImportedPackage("runtime")
	if rt == nil {
		return nil, fmt.Errorf("program does not include package runtime")
	}
	ex.rtErrStr = rt.Type("errorString").Object().Type()
	registerIntercepts(ex)
	return ex, nil
}

func (ex *Explorer) AllowInit(pkgPaths ...string) {
	for _, p := range pkgPaths {
		ex.initAllow[p] = true
	}
}

func (ex *Explorer) register(name string, fn func(fr *frame, args []value) value) {
	ex.intercepts[name] = &intercept{name: name, fn: fn}
}

func (ex *Explorer) initAllowed(pkg *ssa.Package) bool {
	if pkg == nil || pkg.Pkg == nil {
		return false
	}
	p := pkg.Pkg.Path()
	if v, ok := ex.initAllow[p]; ok {
		return v
	}
	return false
}

func (ex *Explorer) interceptFor(fn *ssa.Function) *intercept {
	if v, ok := ex.icache.Load(fn); ok {
		ic := v.(*intercept)
		if ic == nilIntercept {
			return nil
		}
		return ic
	}
	var ic *intercept
	name := fn.String()
	if i, ok := ex.intercepts[name]; ok {
		ic = i
	} else if o := fn.Origin(); o != nil {
		if i, ok := ex.intercepts[o.String()]; ok {
			ic = i
		}
	}
	if ic == nil && fn.Pkg != nil && fn.Signature.Recv() == nil {
		if fn.Name() == "init" && !ex.initAllowed(fn.Pkg) {
			ic = &intercept{name: "init-skipped", fn: func(fr *frame, args []value) value { return nil }}
		} else if strings.HasPrefix(fn.Name(), "init#") && !ex.initAllowed(fn.Pkg) {
			ic = &intercept{name: "init-skipped", fn: func(fr *frame, args []value) value { return nil }}
		} else if strings.HasPrefix(fn.Name(), "init#") && strings.HasSuffix(ex.Fset.Position(fn.Pos()).Filename, ".pb.go") {
			ic = &intercept{name: "init-skipped(pb)", fn: func(fr *frame, args []value) value { return nil }}
		}
	}
	if ic == nil {
		ex.icache.Store(fn, nilIntercept)
		return nil
	}
	ex.icache.Store(fn, ic)
	return ic
}

// FindHarness resolves "<pkgpath>.<Func>".
func (ex *Explorer) FindHarness(name string) (*HarnessSpec, error) {
	i := strings.LastIndex(name, ".")
	if i < 0 {
		return nil, fmt.Errorf("bad harness name %q", name)
	}
	pp, fnName := name[:i], name[i+1:]
	for _, p := range ex.Prog.AllPackages() {
		if p.Pkg.Path() == pp {
			if f := p.Func(fnName); f != nil {
				return &HarnessSpec{Name: name, Fn: f}, nil
			}
			return nil, fmt.Errorf("function %s not found in %s", fnName, pp)
		}
	}
	return nil, fmt.Errorf("package %s not found", pp)
}

// ---------------------------------------------------------------------------

type Sample struct {
	Harness   string            `json:"harness"`
	Decisions string            `json:"decisions"`
	Model     map[string]string `json:"model"`
	Order     []string          `json:"input_order"`
	Events    []string          `json:"events,omitempty"`
	PC        []string          `json:"path_condition,omitempty"`
	End       string            `json:"end"`
}

type Result struct {
	Harness      string
	Paths        int
	Decisions    int
	Branches     int
	Obligations  int
	Discharged   int
	Steps        int64
	Violations   []Violation
	Reached      map[string]int
	Inconclusive []string
	Funcs        map[string]int64
	Stubs        map[string]int
	Solver       SolverStats
	Samples      []Sample
	Wall         time.Duration
	Truncated    bool
}

type pathOutcome struct {
	ctx     *pathCtx
	sample  *Sample
	inconcl []string
}

func (ex *Explorer) Run(h *HarnessSpec) *Result {
	t0 := time.Now()
	res := &Result{Harness: h.Name, Reached: map[string]int{}, Funcs: map[string]int64{}, Stubs: map[string]int{}}
	var mu sync.Mutex
	queue := [][]decision{nil}
	active := 0
	cond := sync.NewCond(&mu)
	nworkers := ex.Workers
	if nworkers < 1 {
		nworkers = 1
	}
	var wg sync.WaitGroup
	for w := 0; w < nworkers; w++ {
		wg.Add(1)
		go func(w int) {
			defer wg.Done()
			solver, err := NewSolver(ex.SolverKind, ex.TimeoutMs)
			if err != nil {
				mu.Lock()
				res.Inconclusive = append(res.Inconclusive, "cannot start solver: "+err.Error())
				mu.Unlock()
				return
			}
			if ex.TraceSMT && w == 0 {
				solver.trace = os.Stderr
			}
			defer solver.Close()
			for {
				mu.Lock()
				for len(queue) == 0 && active > 0 {
					cond.Wait()
				}
				if len(queue) == 0 {
					mu.Unlock()
					cond.Broadcast()
					break
				}
				if res.Paths >= ex.MaxPaths || (!ex.Deadline.IsZero() && time.Now().After(ex.Deadline)) {
					res.Truncated = true
					queue = nil
					mu.Unlock()
					cond.Broadcast()
					break
				}
				prefix := queue[len(queue)-1]
				queue = queue[:len(queue)-1]
				active++
				res.Paths++
				wantSample := len(res.Samples) < ex.SampleMax
				mu.Unlock()

				out := ex.runPath(h, solver, prefix, wantSample)

				mu.Lock()
				active--
				c := out.ctx
				queue = append(queue, c.newWork...)
				res.Decisions += len(c.trace)
				res.Branches += c.branches
				res.Obligations += c.obligations
				res.Discharged += c.discharged
				res.Steps += c.steps
				res.Violations = append(res.Violations, c.violations...)
				for k := range c.reached {
					res.Reached[k]++
				}
				res.Inconclusive = append(res.Inconclusive, out.inconcl...)
				for f, n := range c.funcs {
					res.Funcs[f.String()] += n
				}
				for s, n := range c.stubs {
					res.Stubs[s] += n
				}
				if out.sample != nil && len(res.Samples) < ex.SampleMax {
					res.Samples = append(res.Samples, *out.sample)
				}
				mu.Unlock()
				cond.Broadcast()
			}
			mu.Lock()
			res.Solver.Sat += solver.Stats.Sat
			res.Solver.Unsat += solver.Stats.Unsat
			res.Solver.Unknown += solver.Stats.Unknown
			res.Solver.Time += solver.Stats.Time
			res.Solver.Errors = append(res.Solver.Errors, solver.Stats.Errors...)
			mu.Unlock()
		}(w)
	}
	wg.Wait()
	if res.Truncated {
		res.Inconclusive = append(res.Inconclusive, fmt.Sprintf("exploration truncated after %d paths", res.Paths))
	}
	if len(res.Solver.Errors) > 0 {
		res.Inconclusive = append(res.Inconclusive, "solver error lines: "+clip(strings.Join(res.Solver.Errors, "; "), 500))
	}
	res.Inconclusive = dedup(res.Inconclusive)
	res.Wall = time.Since(t0)
	return res
}

func dedup(xs []string) []string {
	seen := map[string]bool{}
	var out []string
	for _, x := range xs {
		if !seen[x] {
			seen[x] = true
			out = append(out, x)
		}
	}
	sort.Strings(out)
	return out
}

func (ex *Explorer) newInterpreter(ctx *pathCtx) *interpreter {
	ex.reflOnce.Do(func() {
		ex.proto = &interpreter{prog: ex.Prog}
		initReflect(ex.proto)
	})
	return &interpreter{
		prog:               ex.Prog,
		globals:            make(map[*ssa.Global]*value),
		sizes:              &types.StdSizes{WordSize: 8, MaxAlign: 8},
		goroutines:         1,
		runtimeErrorString: ex.rtErrStr,
		reflectPackage:     ex.proto.reflectPackage,
		errorMethods:       ex.proto.errorMethods,
		rtypeMethods:       ex.proto.rtypeMethods,
		ctx:                ctx,
	}
}

func (ex *Explorer) runPath(h *HarnessSpec, solver *Solver, prefix []decision, wantSample bool) (out pathOutcome) {
	solver.Reset()
	ctx := &pathCtx{
		ex: ex, solver: solver, h: h, prefix: prefix,
		nondets: map[string]*Term{}, nondetKind: map[string]*ikind{}, nameCount: map[string]int{},
		known: map[string]*Term{}, reached: map[string]bool{},
		funcs: map[*ssa.Function]int64{}, stubs: map[string]int{},
		mapOrder: h.MapOrder, scratch: map[string]interface{}{},
	}
	ctx.world = newWorld(ctx)
	out.ctx = ctx
	i := ex.newInterpreter(ctx)
	func() {
		defer func() {
			p := recover()
			if p == nil {
				ctx.endReason = "return"
				return
			}
			switch p := p.(type) {
			case pathEnd:
				ctx.endReason = p.reason
			case unsupported:
				ctx.endReason = "unsupported"
				out.inconcl = append(out.inconcl, "unsupported: "+p.msg)
				if ex.Verbose {
					fmt.Fprintf(os.Stderr, "unsupported: %s\n%s\n", p.msg, debug.Stack())
				}
			case engineBug:
				ctx.endReason = "engine error"
				out.inconcl = append(out.inconcl, "engine error: "+p.msg)
			case unwindFailure:
				ctx.endReason = "unwinding failure"
				out.inconcl = append(out.inconcl, "unwinding failure: "+p.msg)
			case targetPanic:
				ctx.endReason = "panic"
				msg := targetPanicString(i, p.v)
				ctx.violated("panic", "uncaught panic", msg+" | at "+ctx.panicStack, tTrue)
			case targetRuntimeError:
				ctx.endReason = "panic"
				ctx.violated("panic", "uncaught panic", p.Error()+" | at "+ctx.panicStack, tTrue)
			default:
				if re, ok := p.(runtime.Error); ok && (strings.Contains(re.Error(), "nil pointer dereference")) {
					// a nil *value dereferenced by the executor on behalf of the target
					ctx.endReason = "panic"
					ctx.violated("panic", "uncaught panic", re.Error()+" [executor-level]", tTrue)
					if ex.Verbose {
						fmt.Fprintf(os.Stderr, "nil deref stack:\n%s\n", debug.Stack())
					}
					return
				}
				ctx.endReason = "engine error"
				out.inconcl = append(out.inconcl, fmt.Sprintf("engine error: %v", p))
				if ex.Verbose {
					fmt.Fprintf(os.Stderr, "engine error: %v\n%s\n", p, debug.Stack())
				}
			}
		}()
		// package initialisation (allow-listed packages only), then the harness
		if initFn := h.Fn.Pkg.Func("init"); initFn != nil {
			call(i, nil, token.NoPos, initFn, nil)
		}
		call(i, nil, token.NoPos, h.Fn, nil)
	}()
	out.inconcl = append(out.inconcl, ctx.inconcl...)
	if ctx.endReason == "return" && len(ctx.violations) > 0 {
		ctx.endReason = "return after violated assertions"
		onlyKnown := true
		for _, v := range ctx.violations {
			if v.Outside || len(v.Known) == 0 {
				onlyKnown = false
			}
		}
		if onlyKnown {
			// every failed assertion lies inside an active known-finding class: the path
			// is still a faithful prediction of the real code's behaviour and can be validated
			ctx.endReason = "return with known findings only"
		}
	}
	if wantSample && (strings.HasPrefix(ctx.endReason, "return") || strings.HasPrefix(ctx.endReason, "assertion")) {
		terms := ctx.modelTerms()
		var evTerms []*Term
		for _, e := range ctx.events {
			for _, a := range e.Args {
				if sv, ok := a.(symv); ok {
					evTerms = append(evTerms, sv.t)
				}
			}
		}
		r, m := solver.Check(nil, append(append([]*Term{}, terms...), evTerms...))
		if r == Sat {
			s := &Sample{Harness: h.Name, Decisions: ctx.traceString(), Model: ctx.modelStrings(m),
				Order: append([]string(nil), ctx.nondetOrder...), End: ctx.endReason, PC: ctx.pcStr}
			for _, e := range ctx.events {
				s.Events = append(s.Events, renderEvent(e, m))
			}
			out.sample = s
		} else if ex.Verbose {
			fmt.Fprintf(os.Stderr, "sample: model query for a completed path answered %v (%d terms)\n", r, len(terms)+len(evTerms))
		}
	}
	return out
}

func renderEvent(e EventRec, m map[*Term]*big.Int) string {
	var b strings.Builder
	b.WriteString(e.Label)
	for _, a := range e.Args {
		b.WriteByte(' ')
		switch a := a.(type) {
		case symv:
			if v := m[a.t]; v != nil {
				if a.k == kBool {
					if v.Sign() != 0 {
						b.WriteString("true")
					} else {
						b.WriteString("false")
					}
				} else {
					b.WriteString(v.String())
				}
			} else {
				b.WriteString("?")
			}
		default:
			b.WriteString(toString(a))
		}
	}
	return b.String()
}

func targetPanicString(i *interpreter, v value) string {
	defer func() { recover() }()
	if it, ok := v.(iface); ok {
		if s, ok := it.v.(string); ok {
			return s
		}
		return fmt.Sprintf("(%v) %s", it.t, clip(toString(it.v), 300))
	}
	return clip(toString(v), 300)
}

// DefaultInitPackages are the packages whose package-level initialisers are
// executed at the start of every path (globals such as the xerrors values).
var DefaultInitPackages = []string{
	"github.com/rigochain/rigo-go/types/xerrors",
	"github.com/rigochain/rigo-go/types",
	"github.com/rigochain/rigo-go/types/bytes",
	"github.com/rigochain/rigo-go/types/crypto",
	"github.com/rigochain/rigo-go/ctrlers/types",
	"github.com/rigochain/rigo-go/ledger",
	"github.com/rigochain/rigo-go/ctrlers/stake",
	"github.com/rigochain/rigo-go/ctrlers/account",
	"github.com/rigochain/rigo-go/ctrlers/gov",
	"github.com/rigochain/rigo-go/ctrlers/gov/proposal",
	"github.com/rigochain/rigo-go/genesis",
	"github.com/rigochain/rigo-go/libs",
	"github.com/rigochain/rigo-go/zzverif",
	"github.com/rigochain/rigo-go/node",
	"github.com/rigochain/rigo-go/cmd/config",
	"github.com/rigochain/rigo-go/cmd/version",
	"github.com/rigochain/rigo-go/ctrlers/vm/evm",
	"time",
}
