package symx

// Codec stubs (assumption A-CODEC): Marshal = deep snapshot of the exported
// fields (honouring the repository's own Marshal*/Unmarshal* methods, which
// are executed), Unmarshal = fresh deep copy out of the snapshot.  The
// encoded form is an opaque *handle* living in a []byte of length 1.

import (
	"crypto/sha256"
	"encoding/hex"
	"fmt"
	"go/token"
	"go/types"
	"strings"
	"sync"
	"sync/atomic"

	"golang.org/x/tools/go/ssa"
)

type handle struct {
	kind string
	snap *snap
	id   int64
}

var handleCounter int64

type snap struct {
	kind   byte // I scalar, T string, B bytes, H nested handle, U u256, S struct, L list, M map, N nil, D dynamic(interface), V raw value
	term   *Term
	gk     types.BasicKind
	str    string
	bytes  []value
	h      *handle
	names  []string
	elems  []*snap
	keys   []value
	typ    types.Type
	raw    value
}

func handleBytes(h *handle) []value {
	if h.id == 0 {
		h.id = atomic.AddInt64(&handleCounter, 1)
	}
	return []value{h}
}

// A byte string whose first element is a *handle stands for that handle
// (fixed-size arrays filled from a handle keep it in element 0).
func handleOf(b []value) (*handle, bool) {
	if len(b) >= 1 {
		if h, ok := b[0].(*handle); ok {
			return h, true
		}
	}
	return nil, false
}

// tokens: string forms of handles (string(bz) / []byte(str) round trip)
var handleTokens sync.Map

func handleToken(h *handle) string {
	if h.id == 0 {
		h.id = atomic.AddInt64(&handleCounter, 1)
	}
	s := fmt.Sprintf("⟦h:%d⟧", h.id)
	handleTokens.Store(s, h)
	return s
}

func tokenHandle(s string) (*handle, bool) {
	if !strings.HasPrefix(s, "⟦h:") {
		return nil, false
	}
	if h, ok := handleTokens.Load(s); ok {
		return h.(*handle), true
	}
	return nil, false
}

// ---- structural equality of snapshots -------------------------------------

func snapEq(a, b *snap) *Term {
	if a == nil || b == nil {
		return BoolConst(a == b)
	}
	if a.kind != b.kind {
		// a nil and an empty byte string / list encode alike in JSON? keep strict
		// except nil-vs-empty bytes which both mean "no bytes"
		if (a.kind == 'N' && b.kind == 'B' && len(b.bytes) == 0) || (b.kind == 'N' && a.kind == 'B' && len(a.bytes) == 0) {
			return tTrue
		}
		if (a.kind == 'N' && b.kind == 'L' && len(b.elems) == 0) || (b.kind == 'N' && a.kind == 'L' && len(a.elems) == 0) {
			return tTrue
		}
		return tFalse
	}
	switch a.kind {
	case 'N':
		return tTrue
	case 'I', 'U':
		return Eq(a.term, b.term)
	case 'T':
		return BoolConst(a.str == b.str)
	case 'B':
		if len(a.bytes) != len(b.bytes) {
			return tFalse
		}
		return bytesEqTerm(a.bytes, b.bytes) // elements may be opaque handles (e.g. prefix ++ encoded struct)
	case 'H':
		if a.h == b.h {
			return tTrue
		}
		if a.h.kind != b.h.kind {
			return tFalse
		}
		return snapEq(a.h.snap, b.h.snap)
	case 'S', 'L':
		if len(a.elems) != len(b.elems) {
			return tFalse
		}
		var cs []*Term
		for i := range a.elems {
			if a.kind == 'S' && a.names[i] != b.names[i] {
				return tFalse
			}
			cs = append(cs, snapEq(a.elems[i], b.elems[i]))
		}
		return And(cs...)
	case 'M':
		if len(a.keys) != len(b.keys) {
			return tFalse
		}
		var cs []*Term
		for i := range a.keys {
			if toString(a.keys[i]) != toString(b.keys[i]) {
				return tFalse
			}
			cs = append(cs, snapEq(a.elems[i], b.elems[i]))
		}
		return And(cs...)
	case 'D':
		if !types.Identical(a.typ, b.typ) {
			return tFalse
		}
		return snapEq(a.elems[0], b.elems[0])
	case 'V':
		return BoolConst(toString(a.raw) == toString(b.raw))
	}
	unsupp("snapEq kind %c", a.kind)
	return nil
}

// ---- snapshotting ------------------------------------------------------------

type codecMode struct {
	name      string // "json" | "proto" | "rlp"
	marshal   string // method name consulted on values ("MarshalJSON")
	unmarshal string
}

var (
	modeJSON  = &codecMode{"json", "MarshalJSON", "UnmarshalJSON"}
	modeProto = &codecMode{"proto", "", ""}
	modeRLP   = &codecMode{"rlp", "EncodeRLP", "DecodeRLP"}
)

func isByteSlice(t types.Type) bool {
	s, ok := t.Underlying().(*types.Slice)
	if !ok {
		return false
	}
	b, ok := s.Elem().Underlying().(*types.Basic)
	return ok && b.Kind() == types.Uint8
}

func isU256(t types.Type) bool {
	n, ok := t.(*types.Named)
	return ok && n.Obj().Pkg() != nil && n.Obj().Pkg().Path() == u256pkg && n.Obj().Name() == "Int"
}

func isRawCopyType(t types.Type) bool {
	n, ok := t.(*types.Named)
	if !ok || n.Obj().Pkg() == nil {
		return false
	}
	p, name := n.Obj().Pkg().Path(), n.Obj().Name()
	return (p == "time" && (name == "Time" || name == "Duration")) || p == "math/big"
}

func (i *interpreter) findMethod(t types.Type, name string) *ssa.Function {
	if name == "" {
		return nil
	}
	ms := i.prog.MethodSets.MethodSet(t)
	for j := 0; j < ms.Len(); j++ {
		sel := ms.At(j)
		if sel.Obj().Name() == name {
			return i.prog.MethodValue(sel)
		}
	}
	return nil
}

func repoType(t types.Type) bool {
	if p, ok := t.(*types.Pointer); ok {
		t = p.Elem()
	}
	n, ok := t.(*types.Named)
	return ok && n.Obj().Pkg() != nil && strings.HasPrefix(n.Obj().Pkg().Path(), "github.com/rigochain/rigo-go")
}

func (i *interpreter) snapOf(fr *frame, v value, t types.Type, mode *codecMode, top bool) *snap {
	c := i.ctx
	if isU256(t) {
		return &snap{kind: 'U', term: u256OfArray(v.(array))}
	}
	if isRawCopyType(t) {
		return &snap{kind: 'V', raw: v, typ: t}
	}
	if isByteSlice(t) {
		b := v.([]value)
		if b == nil {
			return &snap{kind: 'N'}
		}
		if h, ok := handleOf(b); ok {
			return &snap{kind: 'H', h: h}
		}
		return &snap{kind: 'B', bytes: append([]value(nil), b...)}
	}
	// the repository's own marshal methods are executed (not for the top-level
	// value when we are called from inside that very method)
	if !top && mode.marshal != "" && repoType(t) {
		if _, isPtr := t.Underlying().(*types.Pointer); isPtr {
			if pv := v.(*value); pv == nil {
				return &snap{kind: 'N'}
			}
		}
		if m := i.findMethod(t, mode.marshal); m != nil {
			return &snap{kind: 'H', h: i.callMarshaler(fr, m, v, mode)}
		}
		if _, isPtr := t.Underlying().(*types.Pointer); !isPtr {
			if m := i.findMethod(types.NewPointer(t), mode.marshal); m != nil {
				cell := v
				return &snap{kind: 'H', h: i.callMarshaler(fr, m, &cell, mode)}
			}
		}
	}
	switch u := t.Underlying().(type) {
	case *types.Basic:
		switch {
		case u.Info()&types.IsString != 0:
			return &snap{kind: 'T', str: v.(string)}
		case u.Info()&(types.IsInteger|types.IsBoolean) != 0:
			gk, _ := basicKindOf(t)
			return &snap{kind: 'I', term: termOf(v), gk: gk}
		}
		return &snap{kind: 'V', raw: v, typ: t}
	case *types.Pointer:
		pv := v.(*value)
		if pv == nil {
			return &snap{kind: 'N'}
		}
		return i.snapOf(fr, load(u.Elem(), pv), u.Elem(), mode, false)
	case *types.Struct:
		sv := v.(structure)
		s := &snap{kind: 'S'}
		for j := 0; j < u.NumFields(); j++ {
			f := u.Field(j)
			if !f.Exported() {
				continue
			}
			if tag := u.Tag(j); strings.Contains(tag, `json:"-"`) && mode == modeJSON {
				continue
			}
			s.names = append(s.names, f.Name())
			s.elems = append(s.elems, i.snapOf(fr, sv[j], f.Type(), mode, false))
		}
		return s
	case *types.Slice:
		sl := v.([]value)
		if sl == nil {
			return &snap{kind: 'N'}
		}
		s := &snap{kind: 'L'}
		for _, e := range sl {
			s.elems = append(s.elems, i.snapOf(fr, e, u.Elem(), mode, false))
		}
		return s
	case *types.Array:
		s := &snap{kind: 'L'}
		for _, e := range v.(array) {
			s.elems = append(s.elems, i.snapOf(fr, e, u.Elem(), mode, false))
		}
		return s
	case *types.Map:
		var es []mapEntry
		switch m := v.(type) {
		case map[value]value:
			if m == nil {
				return &snap{kind: 'N'}
			}
			es = mapEntriesBuiltin(m)
		case *hashmap:
			if m == nil {
				return &snap{kind: 'N'}
			}
			es = mapEntriesHash(m)
		}
		sortEntries(es)
		s := &snap{kind: 'M'}
		for _, e := range es {
			s.keys = append(s.keys, e.k)
			s.elems = append(s.elems, i.snapOf(fr, e.v, u.Elem(), mode, false))
		}
		return s
	case *types.Interface:
		it := v.(iface)
		if it.t == nil {
			return &snap{kind: 'N'}
		}
		return &snap{kind: 'D', typ: it.t, elems: []*snap{i.snapOf(fr, it.v, it.t, mode, false)}}
	}
	_ = c
	unsupp("snapshot of type %s", t)
	return nil
}

func sortEntries(es []mapEntry) {
	for a := 1; a < len(es); a++ {
		for b := a; b > 0 && es[b].s < es[b-1].s; b-- {
			es[b], es[b-1] = es[b-1], es[b]
		}
	}
}

// callMarshaler runs a MarshalJSON-style method and returns the handle it produced.
func (i *interpreter) callMarshaler(fr *frame, m *ssa.Function, recv value, mode *codecMode) *handle {
	if mode == modeRLP {
		return i.rlpViaMethod(fr, m, recv)
	}
	res := call(i, fr, token.NoPos, m, []value{recv})
	tup := res.(tuple)
	if e := tup[1].(iface); e.t != nil {
		unsupp("%s returned an error", m)
	}
	b := tup[0].([]value)
	if h, ok := handleOf(b); ok {
		return h
	}
	return &handle{kind: "raw", snap: &snap{kind: 'B', bytes: b}}
}

// ---- un-snapshotting -----------------------------------------------------------

func (i *interpreter) unsnap(fr *frame, s *snap, t types.Type, mode *codecMode, top bool) value {
	c := i.ctx
	if isU256(t) {
		switch s.kind {
		case 'U':
			return u256Array(c, s.term)
		case 'N':
			return zero(t)
		}
		unsupp("decode %c into uint256", s.kind)
	}
	if isRawCopyType(t) {
		if s.kind == 'V' {
			return s.raw
		}
		return zero(t)
	}
	if isByteSlice(t) {
		switch s.kind {
		case 'N':
			return []value(nil)
		case 'B':
			return append([]value{}, s.bytes...)
		case 'H':
			return handleBytes(s.h)
		case 'U':
			if s.term.isConst() {
				return bytesToValues(s.term.c.Bytes())
			}
			return handleBytes(&handle{kind: "u256", snap: s})
		}
		unsupp("decode %c into bytes", s.kind)
	}
	if s.kind == 'H' && !top && mode.unmarshal != "" {
		// value encoded by a custom marshaler: decode with the matching method
		pt := t
		isPtr := false
		if p, ok := t.Underlying().(*types.Pointer); ok {
			pt, isPtr = p.Elem(), true
		}
		if m := i.findMethod(types.NewPointer(pt), mode.unmarshal); m != nil {
			cell := zero(pt)
			res := call(i, fr, token.NoPos, m, []value{&cell, handleBytes(s.h)})
			if e, ok := res.(iface); ok && e.t != nil {
				unsupp("%s returned an error", m)
			}
			if isPtr {
				return &cell
			}
			return cell
		}
		// no method: decode the nested snapshot structurally
		return i.unsnap(fr, s.h.snap, t, mode, false)
	}
	switch u := t.Underlying().(type) {
	case *types.Basic:
		switch s.kind {
		case 'T':
			return s.str
		case 'I':
			gk, _ := basicKindOf(t)
			return mkScalar(c, gk, s.term)
		case 'V':
			return s.raw
		case 'N':
			return zero(t)
		}
	case *types.Pointer:
		if s.kind == 'N' {
			return (*value)(nil)
		}
		cell := i.unsnap(fr, s, u.Elem(), mode, false)
		return &cell
	case *types.Struct:
		out := zero(t).(structure)
		if s.kind == 'N' {
			return out
		}
		if s.kind != 'S' {
			unsupp("decode %c into struct %s", s.kind, t)
		}
		for j := 0; j < u.NumFields(); j++ {
			f := u.Field(j)
			if !f.Exported() {
				continue
			}
			for k, n := range s.names {
				if n == f.Name() {
					out[j] = i.unsnap(fr, s.elems[k], f.Type(), mode, false)
					break
				}
			}
		}
		return out
	case *types.Slice:
		if s.kind == 'N' {
			return []value(nil)
		}
		if s.kind != 'L' {
			unsupp("decode %c into slice %s", s.kind, t)
		}
		out := make([]value, len(s.elems))
		for j, e := range s.elems {
			out[j] = i.unsnap(fr, e, u.Elem(), mode, false)
		}
		return out
	case *types.Array:
		out := zero(t).(array)
		if s.kind == 'L' {
			for j, e := range s.elems {
				if j < len(out) {
					out[j] = i.unsnap(fr, e, u.Elem(), mode, false)
				}
			}
		}
		return out
	case *types.Map:
		m := makeMap(u.Key(), 0)
		if s.kind == 'N' {
			return zero(t)
		}
		for j, k := range s.keys {
			ev := i.unsnap(fr, s.elems[j], u.Elem(), mode, false)
			switch mm := m.(type) {
			case map[value]value:
				mm[k] = ev
			case *hashmap:
				mm.insert(k.(hashable), ev)
			}
		}
		return m
	case *types.Interface:
		if s.kind == 'N' {
			return iface{}
		}
		if s.kind == 'D' {
			return iface{t: s.typ, v: i.unsnap(fr, s.elems[0], s.typ, mode, false)}
		}
	}
	unsupp("decode snapshot %c into %s", s.kind, t)
	return nil
}

// ---- entry points -----------------------------------------------------------------

func (i *interpreter) marshalAny(fr *frame, v value, mode *codecMode, kind string) value {
	it := v.(iface)
	if it.t == nil {
		return tuple{handleBytes(&handle{kind: kind, snap: &snap{kind: 'N'}}), iface{}}
	}
	// top-level custom marshaler?
	if mode.marshal != "" && repoType(it.t) {
		if !i.insideMethodOn(fr, mode.marshal, it.t) {
			if m := i.findMethod(it.t, mode.marshal); m != nil {
				h := i.callMarshaler(fr, m, it.v, mode)
				return tuple{handleBytes(h), iface{}}
			}
		}
	}
	s := i.snapOf(fr, it.v, it.t, mode, true)
	return tuple{handleBytes(&handle{kind: kind, snap: s}), iface{}}
}

// insideMethodOn reports whether some caller frame is already executing the
// named method on (pointer to) type t – the usual "type alias to avoid
// recursion" idiom is not needed then.
func (i *interpreter) insideMethodOn(fr *frame, method string, t types.Type) bool {
	base := t
	if p, ok := t.Underlying().(*types.Pointer); ok {
		base = p.Elem()
	}
	for f := fr; f != nil; f = f.caller {
		if f.fn == nil || f.fn.Name() != method || f.fn.Signature.Recv() == nil {
			continue
		}
		rt := f.fn.Signature.Recv().Type()
		if p, ok := rt.Underlying().(*types.Pointer); ok {
			rt = p.Elem()
		}
		if types.Identical(rt, base) {
			return true
		}
	}
	return false
}

func (i *interpreter) unmarshalAny(fr *frame, data value, dst value, mode *codecMode) value {
	b := data.([]value)
	it := dst.(iface)
	h, ok := handleOf(b)
	if !ok {
		if tok, ok2 := valuesToString(b); ok2 {
			if hh, ok3 := tokenHandle(tok); ok3 {
				h, ok = hh, true
			}
		}
	}
	if !ok && len(b) == 0 && mode == modeProto {
		// protobuf: empty input is the default message
		pt, okp := it.t.Underlying().(*types.Pointer)
		if pv, okv := it.v.(*value); okp && okv && pv != nil {
			store(pt.Elem(), pv, zero(pt.Elem()))
			return iface{}
		}
	}
	if !ok {
		// undecodable concrete bytes: the codec reports an error (A-CODEC: total)
		if bz, okc := concreteBytes(b); okc {
			return i.newError(fmt.Sprintf("%s: cannot decode %d concrete bytes (executor codec stub)", mode.name, len(bz)))
		}
		unsupp("%s.Unmarshal of non-handle symbolic bytes", mode.name)
	}
	pt, okp := it.t.Underlying().(*types.Pointer)
	if !okp {
		return i.newError(mode.name + ": Unmarshal(non-pointer)")
	}
	pv := it.v.(*value)
	if pv == nil {
		return i.newError(mode.name + ": Unmarshal(nil)")
	}
	if mode.unmarshal != "" && repoType(it.t) && !i.insideMethodOn(fr, mode.unmarshal, it.t) {
		if m := i.findMethod(it.t, mode.unmarshal); m != nil {
			res := call(i, fr, token.NoPos, m, []value{pv, b})
			return res
		}
	}
	nv := i.unsnap(fr, h.snap, pt.Elem(), mode, true)
	store(pt.Elem(), pv, nv)
	return iface{}
}

func registerCodec(ex *Explorer) {
	jm := func(fr *frame, args []value) value { return fr.i.marshalAny(fr, args[0], modeJSON, "json") }
	ju := func(fr *frame, args []value) value { return fr.i.unmarshalAny(fr, args[0], args[1], modeJSON) }
	ex.register("encoding/json.Marshal", jm)
	ex.register("encoding/json.MarshalIndent", jm)
	ex.register("encoding/json.Unmarshal", ju)
	ex.register("github.com/tendermint/tendermint/libs/json.Marshal", jm)
	ex.register("github.com/tendermint/tendermint/libs/json.MarshalIndent", jm)
	ex.register("github.com/tendermint/tendermint/libs/json.Unmarshal", ju)
	pm := func(fr *frame, args []value) value { return fr.i.marshalAny(fr, args[0], modeProto, "proto") }
	pu := func(fr *frame, args []value) value { return fr.i.unmarshalAny(fr, args[0], args[1], modeProto) }
	ex.register("google.golang.org/protobuf/proto.Marshal", pm)
	ex.register("google.golang.org/protobuf/proto.Unmarshal", pu)
	ex.register("github.com/gogo/protobuf/proto.Marshal", pm)
	ex.register("github.com/gogo/protobuf/proto.Unmarshal", pu)

	// hashing (A-HASH): injective uninterpreted function = structural handle
	ex.register("github.com/rigochain/rigo-go/types/crypto.DefaultHash", func(fr *frame, args []value) value {
		s := &snap{kind: 'L'}
		for _, d := range args[0].([]value) {
			s.elems = append(s.elems, fr.i.snapOf(fr, d, types.NewSlice(types.Typ[types.Uint8]), modeProto, false))
		}
		return handleBytes(&handle{kind: "hash", snap: s})
	})
	registerRLP(ex)
}

// snapDiff describes the first structural difference (debugging aid).
func snapDiff(a, b *snap, path string) string {
	if a == nil || b == nil {
		return fmt.Sprintf("%s: nil-ness %v/%v", path, a == nil, b == nil)
	}
	if a.kind != b.kind {
		return fmt.Sprintf("%s: kind %c vs %c", path, a.kind, b.kind)
	}
	switch a.kind {
	case 'I', 'U':
		if Eq(a.term, b.term).isFalse() {
			return fmt.Sprintf("%s: %s vs %s", path, clip(a.term.String(), 60), clip(b.term.String(), 60))
		}
	case 'T':
		if a.str != b.str {
			return fmt.Sprintf("%s: %q vs %q", path, clip(a.str, 40), clip(b.str, 40))
		}
	case 'B':
		if len(a.bytes) != len(b.bytes) {
			return fmt.Sprintf("%s: len %d vs %d", path, len(a.bytes), len(b.bytes))
		}
		for i := range a.bytes {
			if Eq(termOf(a.bytes[i]), termOf(b.bytes[i])).isFalse() {
				return fmt.Sprintf("%s: byte %d differs (%s vs %s)", path, i, toString(a.bytes[i]), toString(b.bytes[i]))
			}
		}
	case 'H':
		if a.h != b.h {
			if a.h.kind != b.h.kind {
				return fmt.Sprintf("%s: handle kind %s vs %s", path, a.h.kind, b.h.kind)
			}
			return snapDiff(a.h.snap, b.h.snap, path+"/"+a.h.kind)
		}
	case 'S', 'L':
		if len(a.elems) != len(b.elems) {
			return fmt.Sprintf("%s: %d vs %d elems", path, len(a.elems), len(b.elems))
		}
		for i := range a.elems {
			n := fmt.Sprint(i)
			if a.kind == 'S' {
				n = a.names[i]
			}
			if d := snapDiff(a.elems[i], b.elems[i], path+"."+n); d != "" {
				return d
			}
		}
	case 'M':
		if len(a.keys) != len(b.keys) {
			return fmt.Sprintf("%s: %d vs %d keys", path, len(a.keys), len(b.keys))
		}
		for i := range a.elems {
			if d := snapDiff(a.elems[i], b.elems[i], path+"["+toString(a.keys[i])+"]"); d != "" {
				return d
			}
		}
	case 'D':
		return snapDiff(a.elems[0], b.elems[0], path+".(dyn)")
	case 'V':
		if toString(a.raw) != toString(b.raw) {
			return fmt.Sprintf("%s: raw %s vs %s", path, clip(toString(a.raw), 40), clip(toString(b.raw), 40))
		}
	}
	return ""
}

// ---- content fingerprints (A-HASH: a hash is an injective function of content) ----

func termFingerprint(t *Term, memo map[*Term]string) string {
	if s, ok := memo[t]; ok {
		return s
	}
	var s string
	switch t.op {
	case "const":
		s = "c" + t.c.String()
	case "var":
		s = "v" + t.name
	default:
		parts := []string{t.op, t.name}
		for _, a := range t.args {
			parts = append(parts, termFingerprint(a, memo))
		}
		sum := sha256.Sum256([]byte(strings.Join(parts, "|")))
		s = "t" + hex.EncodeToString(sum[:12])
	}
	memo[t] = s
	return s
}

func snapFingerprint(s *snap, memo map[*Term]string, w *strings.Builder) {
	if s == nil {
		w.WriteString("nil;")
		return
	}
	w.WriteByte(s.kind)
	switch s.kind {
	case 'I', 'U':
		w.WriteString(termFingerprint(s.term, memo))
	case 'T':
		fmt.Fprintf(w, "%q", s.str)
	case 'B':
		for _, b := range s.bytes {
			if h, ok := b.(*handle); ok {
				w.WriteString("h(")
				snapFingerprint(h.snap, memo, w)
				w.WriteString(")")
			} else {
				w.WriteString(termFingerprint(termOf(b), memo))
			}
			w.WriteByte(',')
		}
	case 'H':
		w.WriteString(s.h.kind + "(")
		snapFingerprint(s.h.snap, memo, w)
		w.WriteString(")")
	case 'S', 'L':
		for i, e := range s.elems {
			if s.kind == 'S' {
				w.WriteString(s.names[i] + "=")
			}
			snapFingerprint(e, memo, w)
			w.WriteByte(',')
		}
	case 'M':
		for i, e := range s.elems {
			w.WriteString(toString(s.keys[i]) + "=")
			snapFingerprint(e, memo, w)
			w.WriteByte(',')
		}
	case 'D':
		w.WriteString(s.typ.String())
		snapFingerprint(s.elems[0], memo, w)
	case 'V':
		if bs, ok := s.raw.([]value); ok {
			for _, b := range bs {
				if h, ok := b.(*handle); ok {
					w.WriteString("h(")
					snapFingerprint(h.snap, memo, w)
					w.WriteString(")")
				} else {
					w.WriteString(toString(b))
				}
				w.WriteByte(',')
			}
		} else {
			w.WriteString(toString(s.raw))
		}
	}
	w.WriteByte(';')
}

// handleDigest is a 32-byte content hash of a handle.
func handleDigest(h *handle) [32]byte {
	var w strings.Builder
	w.WriteString(h.kind + ":")
	snapFingerprint(h.snap, map[*Term]string{}, &w)
	return sha256.Sum256([]byte(w.String()))
}
