package symx

// Per-path state: decision prefix / trace, path condition, named inputs,
// assertions, vacuity witnesses, events (DESIGN §2.4, §2.5, §2.10, §2.11).

import (
	"fmt"
	"math/big"
	"sort"
	"strings"

	"golang.org/x/tools/go/ssa"
)

// A decision is one entry of the re-execution prefix.
//   kind 'b': binary branch on a symbolic condition, v = 0 (true) / 1 (false)
//   kind 'c': concretisation of a term to value v
//   kind 'n': n-way fork without condition (Choose, map order), v = alternative
type decision struct {
	Kind byte
	V    int64
}

func (d decision) String() string { return fmt.Sprintf("%c%d", d.Kind, d.V) }

type Violation struct {
	Label   string            `json:"label"`
	Harness string            `json:"harness"`
	Model   map[string]string `json:"model"`
	Trace   string            `json:"trace"`
	Known   []string          `json:"known_classes_hit,omitempty"`
	Outside bool              `json:"outside_known_classes"`
	Kind    string            `json:"kind"` // "assert" | "panic"
	Detail  string            `json:"detail,omitempty"`
	Order   []string          `json:"input_order"`
}

type EventRec struct {
	Label string
	Args  []value
}

// pathEnd is panicked to terminate the current path early (infeasible
// assumption, concrete assertion failure already recorded, …).
type pathEnd struct{ reason string }

type pathCtx struct {
	ex     *Explorer
	solver *Solver
	h      *HarnessSpec

	prefix []decision
	pos    int
	trace  []decision
	pcStr  []string

	nondets     map[string]*Term
	nondetKind  map[string]*ikind
	nondetOrder []string
	nameCount   map[string]int

	known      map[string]*Term // known-finding class predicates seen on this path
	knownOrder []string

	events     []EventRec
	violations []Violation
	reached    map[string]bool
	newWork    [][]decision

	obligations int
	discharged  int
	steps       int64
	branches    int
	inconcl     []string
	funcs       map[*ssa.Function]int64
	stubs       map[string]int
	endReason   string
	world       *world // model stores etc (intercepts)
	mapOrder    bool   // fork on map iteration order
	mapMode     int    // 0 canonical ascending, 1 descending, 2 rotated (SetMapOrder)
	scratch     map[string]interface{}
	panicLive   bool
	panicStack  string
}

func (c *pathCtx) inconclusive(f string, a ...interface{}) {
	c.inconcl = append(c.inconcl, fmt.Sprintf(f, a...))
}

// refine tightens the intervals of variables from a literal that now holds on
// this path (var <=/</=/>=/> const, conjunctions, negations).  Intervals only
// drive simplification (wrap elision, constant comparison), so using facts of
// the current path condition is sound for every term built afterwards.
func refine(t *Term, pos bool) {
	switch t.op {
	case "not":
		refine(t.args[0], !pos)
	case "and":
		if pos {
			for _, a := range t.args {
				refine(a, true)
			}
		}
	case "or":
		if !pos {
			for _, a := range t.args {
				refine(a, false)
			}
		}
	case "<", "<=", "=":
		if t.args[0].sort != SInt {
			return
		}
		a, b := t.args[0], t.args[1]
		op := t.op
		if !pos {
			switch op {
			case "<": // not(a<b) == b<=a
				a, b, op = b, a, "<="
			case "<=":
				a, b, op = b, a, "<"
			default:
				return
			}
		}
		// a op b
		if a.op == "var" && b.hi != nil {
			hi := b.hi
			if op == "<" {
				hi = new(big.Int).Sub(hi, big1)
			}
			if a.hi == nil || hi.Cmp(a.hi) < 0 {
				a.hi = hi
			}
		}
		if b.op == "var" && a.lo != nil {
			lo := a.lo
			if op == "<" {
				lo = new(big.Int).Add(lo, big1)
			}
			if b.lo == nil || lo.Cmp(b.lo) > 0 {
				b.lo = lo
			}
		}
		if op == "=" {
			if a.op == "var" && b.lo != nil && (a.lo == nil || b.lo.Cmp(a.lo) > 0) {
				a.lo = b.lo
			}
			if b.op == "var" && a.hi != nil && (b.hi == nil || a.hi.Cmp(b.hi) < 0) {
				b.hi = a.hi
			}
		}
	}
}

func (c *pathCtx) assert(t *Term) {
	if t.isTrue() {
		return
	}
	refine(t, true)
	c.solver.Assert(t)
	if len(c.pcStr) < 200 {
		s := t.String()
		if len(s) > 300 {
			s = s[:300] + "…"
		}
		c.pcStr = append(c.pcStr, s)
	}
}

func (c *pathCtx) queue(alt decision) {
	w := make([]decision, len(c.trace)+1)
	copy(w, c.trace)
	w[len(c.trace)] = alt
	c.newWork = append(c.newWork, w)
}

// branch decides a symbolic condition, forking when both sides are feasible.
func (c *pathCtx) branch(cond *Term) bool {
	if cond.isConst() {
		return cond.isTrue()
	}
	c.branches++
	if c.pos < len(c.prefix) {
		d := c.prefix[c.pos]
		if d.Kind != 'b' {
			panic(fmt.Sprintf("symx: replay divergence: expected %c got b at %d", d.Kind, c.pos))
		}
		c.pos++
		c.trace = append(c.trace, d)
		if d.V == 0 {
			c.assert(cond)
			return true
		}
		c.assert(Not(cond))
		return false
	}
	c.pos++
	rT, _ := c.solver.Check(cond, nil)
	if rT == Unsat {
		c.trace = append(c.trace, decision{'b', 1})
		c.assert(Not(cond))
		return false
	}
	rF, _ := c.solver.Check(Not(cond), nil)
	if rF == Unsat {
		c.trace = append(c.trace, decision{'b', 0})
		c.assert(cond)
		return true
	}
	if rT == Unknown || rF == Unknown {
		c.inconclusive("solver unknown at branch %s", clip(cond.String(), 200))
	}
	c.queue(decision{'b', 1})
	c.trace = append(c.trace, decision{'b', 0})
	c.assert(cond)
	return true
}

func clip(s string, n int) string {
	if len(s) > n {
		return s[:n] + "…"
	}
	return s
}

// choose forks n ways without a condition.
func (c *pathCtx) choose(n int) int {
	if n <= 1 {
		return 0
	}
	if c.pos < len(c.prefix) {
		d := c.prefix[c.pos]
		if d.Kind != 'n' {
			panic(fmt.Sprintf("symx: replay divergence: expected %c got n at %d", d.Kind, c.pos))
		}
		c.pos++
		c.trace = append(c.trace, d)
		return int(d.V)
	}
	c.pos++
	for i := 1; i < n; i++ {
		c.queue(decision{'n', int64(i)})
	}
	c.trace = append(c.trace, decision{'n', 0})
	return 0
}

const maxConcretize = 24

// concretize returns a concrete value for t, forking over all feasible
// values (at most maxConcretize – more is reported as unsupported).
func (c *pathCtx) concretize(t *Term) *big.Int {
	if t.isConst() {
		return t.c
	}
	if c.pos < len(c.prefix) {
		d := c.prefix[c.pos]
		if d.Kind != 'c' {
			panic(fmt.Sprintf("symx: replay divergence: expected %c got c at %d", d.Kind, c.pos))
		}
		c.pos++
		c.trace = append(c.trace, d)
		v := big.NewInt(d.V)
		c.assert(Eq(t, IntConst(v)))
		return v
	}
	c.pos++
	var vals []*big.Int
	excl := tTrue
	for {
		r, m := c.solver.Check(excl, []*Term{t})
		if r == Unsat {
			break
		}
		if r == Unknown || m[t] == nil {
			c.inconclusive("solver unknown while concretising %s", clip(t.String(), 200))
			break
		}
		v := m[t]
		if !v.IsInt64() {
			unsupp("concretize: value out of int64 range for %s", clip(t.String(), 100))
		}
		vals = append(vals, v)
		if len(vals) > maxConcretize {
			unsupp("concretize: more than %d feasible values for %s", maxConcretize, clip(t.String(), 200))
		}
		excl = And(excl, Ne(t, IntConst(v)))
	}
	if len(vals) == 0 {
		panic(pathEnd{"infeasible at concretize"})
	}
	sort.Slice(vals, func(i, j int) bool { return vals[i].Cmp(vals[j]) < 0 })
	for _, v := range vals[1:] {
		c.queue(decision{'c', v.Int64()})
	}
	c.trace = append(c.trace, decision{'c', vals[0].Int64()})
	c.assert(Eq(t, IntConst(vals[0])))
	return vals[0]
}

func (c *pathCtx) assume(t *Term) {
	if t.isTrue() {
		return
	}
	if t.isFalse() {
		panic(pathEnd{"assume(false)"})
	}
	c.assert(t)
	// replayed prefixes were feasible when created; only check at the frontier
	if c.pos >= len(c.prefix) {
		r, _ := c.solver.Check(nil, nil)
		if r == Unsat {
			panic(pathEnd{"infeasible assumption"})
		}
		if r == Unknown {
			c.inconclusive("solver unknown after assume")
		}
	}
}

func (c *pathCtx) uniqueName(name string) string {
	n := c.nameCount[name]
	c.nameCount[name] = n + 1
	if n == 0 {
		return name
	}
	return fmt.Sprintf("%s#%d", name, n)
}

func (c *pathCtx) nondet(name string, k *ikind) *Term {
	name = c.uniqueName(name)
	var t *Term
	if k == kBool {
		t = BoolVar(name)
	} else {
		t = IntVar(name, k)
	}
	c.nondets[name] = t
	c.nondetKind[name] = k
	c.nondetOrder = append(c.nondetOrder, name)
	return t
}

func (c *pathCtx) modelTerms() []*Term {
	ts := make([]*Term, 0, len(c.nondetOrder))
	for _, n := range c.nondetOrder {
		ts = append(ts, c.nondets[n])
	}
	return ts
}

func (c *pathCtx) modelStrings(m map[*Term]*big.Int) map[string]string {
	out := map[string]string{}
	for _, n := range c.nondetOrder {
		if v := m[c.nondets[n]]; v != nil {
			out[n] = v.String()
		} else {
			out[n] = "0"
		}
	}
	return out
}

func (c *pathCtx) traceString() string {
	var b strings.Builder
	for i, d := range c.trace {
		if i > 0 {
			b.WriteByte(' ')
		}
		b.WriteString(d.String())
	}
	return b.String()
}

// violated records a property violation whose condition `bad` (may be true)
// is to be satisfiable together with the path condition.
func (c *pathCtx) violated(kind, label, detail string, bad *Term) bool {
	r, m := c.solver.Check(bad, c.modelTerms())
	if r == Unsat {
		return false
	}
	if r == Unknown {
		c.inconclusive("solver unknown at assertion %q", label)
		return false
	}
	v := Violation{Label: label, Harness: c.h.Name, Kind: kind, Detail: detail, Trace: c.traceString(),
		Order: append([]string(nil), c.nondetOrder...)}
	// known-finding classification (DESIGN §2.11)
	outside := bad
	for _, id := range c.knownOrder {
		if !c.ex.KnownActive[id] {
			continue // fixed or unlisted classes exclude nothing
		}
		k := c.known[id]
		rk, _ := c.solver.Check(And(bad, k), nil)
		if rk == Sat {
			v.Known = append(v.Known, id)
		}
		outside = And(outside, Not(k))
	}
	if len(v.Known) > 0 {
		ro, mo := c.solver.Check(outside, c.modelTerms())
		switch ro {
		case Sat:
			v.Outside = true
			m = mo
		case Unknown:
			c.inconclusive("solver unknown while classifying %q", label)
		}
	} else {
		v.Outside = true
	}
	v.Model = c.modelStrings(m)
	c.violations = append(c.violations, v)
	return true
}

// check is zzverif.Assert.
func (c *pathCtx) check(cond *Term, label string) {
	c.obligations++
	if cond.isTrue() {
		c.discharged++
		return
	}
	if !c.violated("assert", label, "", Not(cond)) {
		// not(cond) is unsatisfiable under the path condition: cond is implied,
		// nothing to add and the path stays feasible
		c.discharged++
		return
	}
	if cond.isFalse() {
		// concrete failure: recorded; the harness goes on (as a native test
		// would), later assertions on this path are still checked
		return
	}
	// continue on the side where the assertion holds
	c.assert(cond)
	if r, _ := c.solver.Check(nil, nil); r == Unsat {
		panic(pathEnd{"assertion always fails: " + label})
	}
}

func (c *pathCtx) checkDivZero(b *Term) {
	if c == nil {
		if b.isConst() && b.c.Sign() == 0 {
			panic(targetRuntimeError("integer divide by zero"))
		}
		return
	}
	if c.branch(Eq(b, IntConst64(0))) {
		panic(targetRuntimeError("integer divide by zero"))
	}
}

// targetRuntimeError is a Go run-time panic of the *target* program that the
// executor detected itself (symbolic index, division by zero …).
type targetRuntimeError string

func (e targetRuntimeError) Error() string { return "runtime error: " + string(e) }
func (e targetRuntimeError) RuntimeError() {}
