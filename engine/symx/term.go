package symx

// Terms of the verification-condition language: SMT Int and Bool with
// explicit modular wrap (DESIGN §2.3).  Constants are folded with big.Int,
// every Int term carries a conservative interval so that wraps are only
// emitted when the value can actually leave the Go type's range.

import (
	"fmt"
	"math/big"
	"sort"
	"strings"
	"sync/atomic"
)

type Sort int

const (
	SInt Sort = iota
	SBool
)

type Term struct {
	op     string
	sort   Sort
	args   []*Term
	c      *big.Int // constant value (Int) or 0/1 (Bool)
	name   string   // variable / uninterpreted function / wrap kind
	lo, hi *big.Int // interval (Int only; nil = unbounded)
	id     int64
}

var termCounter int64

func newTerm(op string, s Sort, args ...*Term) *Term {
	return &Term{op: op, sort: s, args: args, id: atomic.AddInt64(&termCounter, 1)}
}

var (
	big0 = big.NewInt(0)
	big1 = big.NewInt(1)
)

func pow2(n uint) *big.Int { return new(big.Int).Lsh(big1, n) }

// ---- kinds ---------------------------------------------------------------

type ikind struct {
	name   string
	bits   uint
	signed bool
}

var (
	kI8   = &ikind{"i8", 8, true}
	kI16  = &ikind{"i16", 16, true}
	kI32  = &ikind{"i32", 32, true}
	kI64  = &ikind{"i64", 64, true}
	kU8   = &ikind{"u8", 8, false}
	kU16  = &ikind{"u16", 16, false}
	kU32  = &ikind{"u32", 32, false}
	kU64  = &ikind{"u64", 64, false}
	kU256 = &ikind{"u256", 256, false}
	kBool = &ikind{"bool", 1, false}
	allKinds = []*ikind{kI8, kI16, kI32, kI64, kU8, kU16, kU32, kU64, kU256}
)

func (k *ikind) min() *big.Int {
	if k.signed {
		return new(big.Int).Neg(pow2(k.bits - 1))
	}
	return big.NewInt(0)
}
func (k *ikind) max() *big.Int {
	if k.signed {
		return new(big.Int).Sub(pow2(k.bits-1), big1)
	}
	return new(big.Int).Sub(pow2(k.bits), big1)
}

// wrapBig reduces v into the range of k with two's complement semantics.
func (k *ikind) wrapBig(v *big.Int) *big.Int {
	m := new(big.Int).Mod(v, pow2(k.bits)) // Euclidean: result >= 0
	if k.signed && m.Cmp(pow2(k.bits-1)) >= 0 {
		m.Sub(m, pow2(k.bits))
	}
	return m
}

// ---- constructors --------------------------------------------------------

func IntConst(v *big.Int) *Term {
	t := newTerm("const", SInt)
	t.c = new(big.Int).Set(v)
	t.lo, t.hi = t.c, t.c
	return t
}
func IntConst64(v int64) *Term { return IntConst(big.NewInt(v)) }
func BoolConst(b bool) *Term {
	t := newTerm("const", SBool)
	if b {
		t.c = big1
	} else {
		t.c = big0
	}
	return t
}

var tTrue, tFalse = BoolConst(true), BoolConst(false)

func (t *Term) isConst() bool { return t.op == "const" }
func (t *Term) isTrue() bool  { return t.op == "const" && t.sort == SBool && t.c.Sign() != 0 }
func (t *Term) isFalse() bool { return t.op == "const" && t.sort == SBool && t.c.Sign() == 0 }

func IntVar(name string, k *ikind) *Term {
	t := newTerm("var", SInt)
	t.name = name
	if k != nil {
		t.lo, t.hi = k.min(), k.max()
	}
	return t
}
func BoolVar(name string) *Term {
	t := newTerm("var", SBool)
	t.name = name
	return t
}

func addB(a, b *big.Int) *big.Int {
	if a == nil || b == nil {
		return nil
	}
	return new(big.Int).Add(a, b)
}
func subB(a, b *big.Int) *big.Int {
	if a == nil || b == nil {
		return nil
	}
	return new(big.Int).Sub(a, b)
}

func Add(a, b *Term) *Term {
	if a.isConst() && b.isConst() {
		return IntConst(new(big.Int).Add(a.c, b.c))
	}
	if a.isConst() && a.c.Sign() == 0 {
		return b
	}
	if b.isConst() && b.c.Sign() == 0 {
		return a
	}
	t := newTerm("+", SInt, a, b)
	t.lo, t.hi = addB(a.lo, b.lo), addB(a.hi, b.hi)
	return t
}
func Sub(a, b *Term) *Term {
	if a.isConst() && b.isConst() {
		return IntConst(new(big.Int).Sub(a.c, b.c))
	}
	if b.isConst() && b.c.Sign() == 0 {
		return a
	}
	if a == b {
		return IntConst64(0)
	}
	t := newTerm("-", SInt, a, b)
	t.lo, t.hi = subB(a.lo, b.hi), subB(a.hi, b.lo)
	return t
}
func Neg(a *Term) *Term { return Sub(IntConst64(0), a) }

func Mul(a, b *Term) *Term {
	if a.isConst() && b.isConst() {
		return IntConst(new(big.Int).Mul(a.c, b.c))
	}
	if a.isConst() && !b.isConst() {
		a, b = b, a
	}
	if b.isConst() {
		if b.c.Sign() == 0 {
			return IntConst64(0)
		}
		if b.c.Cmp(big1) == 0 {
			return a
		}
	}
	t := newTerm("*", SInt, a, b)
	if a.lo != nil && a.hi != nil && b.lo != nil && b.hi != nil {
		c := []*big.Int{
			new(big.Int).Mul(a.lo, b.lo), new(big.Int).Mul(a.lo, b.hi),
			new(big.Int).Mul(a.hi, b.lo), new(big.Int).Mul(a.hi, b.hi)}
		lo, hi := c[0], c[0]
		for _, x := range c[1:] {
			if x.Cmp(lo) < 0 {
				lo = x
			}
			if x.Cmp(hi) > 0 {
				hi = x
			}
		}
		t.lo, t.hi = lo, hi
	}
	return t
}

// EDiv / EMod are SMT-LIB div / mod (Euclidean: remainder always >= 0).
func EDiv(a, b *Term) *Term {
	if a.isConst() && b.isConst() && b.c.Sign() != 0 {
		q, _ := new(big.Int).DivMod(a.c, b.c, new(big.Int))
		return IntConst(q)
	}
	if b.isConst() && b.c.Cmp(big1) == 0 {
		return a
	}
	// (x * c) div c == x for a positive constant c
	if b.isConst() && b.c.Sign() > 0 && a.op == "*" && a.args[1].isConst() && a.args[1].c.Cmp(b.c) == 0 {
		return a.args[0]
	}
	t := newTerm("div", SInt, a, b)
	if b.isConst() && b.c.Sign() > 0 && a.lo != nil && a.hi != nil {
		lo, _ := new(big.Int).DivMod(a.lo, b.c, new(big.Int))
		hi, _ := new(big.Int).DivMod(a.hi, b.c, new(big.Int))
		t.lo, t.hi = lo, hi
	} else if a.lo != nil && a.hi != nil && a.lo.Sign() >= 0 && b.lo != nil && b.lo.Sign() > 0 {
		t.lo, t.hi = big0, a.hi
	}
	return t
}
func EMod(a, b *Term) *Term {
	if a.isConst() && b.isConst() && b.c.Sign() != 0 {
		_, m := new(big.Int).DivMod(a.c, b.c, new(big.Int))
		return IntConst(m)
	}
	if b.isConst() && b.c.Sign() > 0 && a.lo != nil && a.hi != nil && a.lo.Sign() >= 0 && a.hi.Cmp(b.c) < 0 {
		return a
	}
	// (x * c) mod c == 0
	if b.isConst() && b.c.Sign() > 0 && a.op == "*" && a.args[1].isConst() && a.args[1].c.Cmp(b.c) == 0 {
		return IntConst64(0)
	}
	t := newTerm("mod", SInt, a, b)
	if b.isConst() && b.c.Sign() > 0 {
		t.lo, t.hi = big0, new(big.Int).Sub(b.c, big1)
	} else if b.hi != nil && b.lo != nil && b.lo.Sign() > 0 {
		t.lo, t.hi = big0, new(big.Int).Sub(b.hi, big1)
	}
	return t
}

func Ite(c, a, b *Term) *Term {
	if c.isTrue() {
		return a
	}
	if c.isFalse() {
		return b
	}
	if a == b {
		return a
	}
	t := newTerm("ite", a.sort, c, a, b)
	if a.sort == SInt {
		if a.lo != nil && b.lo != nil {
			if a.lo.Cmp(b.lo) < 0 {
				t.lo = a.lo
			} else {
				t.lo = b.lo
			}
		}
		if a.hi != nil && b.hi != nil {
			if a.hi.Cmp(b.hi) > 0 {
				t.hi = a.hi
			} else {
				t.hi = b.hi
			}
		}
	}
	return t
}

// Wrap reduces an Int term into the range of kind k (two's complement).
func Wrap(k *ikind, a *Term) *Term {
	if a.isConst() {
		return IntConst(k.wrapBig(a.c))
	}
	if a.lo != nil && a.hi != nil && a.lo.Cmp(k.min()) >= 0 && a.hi.Cmp(k.max()) <= 0 {
		return a
	}
	t := newTerm("wrap", SInt, a)
	t.name = k.name
	t.lo, t.hi = k.min(), k.max()
	return t
}

func cmpConst(op string, a, b *big.Int) bool {
	c := a.Cmp(b)
	switch op {
	case "=":
		return c == 0
	case "<":
		return c < 0
	case "<=":
		return c <= 0
	}
	panic(op)
}

func Eq(a, b *Term) *Term {
	if a.sort == SBool {
		return Iff(a, b)
	}
	if a.isConst() && b.isConst() {
		return BoolConst(a.c.Cmp(b.c) == 0)
	}
	if a == b {
		return tTrue
	}
	// disjoint intervals
	if a.hi != nil && b.lo != nil && a.hi.Cmp(b.lo) < 0 {
		return tFalse
	}
	if b.hi != nil && a.lo != nil && b.hi.Cmp(a.lo) < 0 {
		return tFalse
	}
	return newTerm("=", SBool, a, b)
}
func Lt(a, b *Term) *Term {
	if a.isConst() && b.isConst() {
		return BoolConst(a.c.Cmp(b.c) < 0)
	}
	if a == b {
		return tFalse
	}
	if a.hi != nil && b.lo != nil && a.hi.Cmp(b.lo) < 0 {
		return tTrue
	}
	if a.lo != nil && b.hi != nil && a.lo.Cmp(b.hi) >= 0 {
		return tFalse
	}
	return newTerm("<", SBool, a, b)
}
func Le(a, b *Term) *Term {
	if a.isConst() && b.isConst() {
		return BoolConst(a.c.Cmp(b.c) <= 0)
	}
	if a == b {
		return tTrue
	}
	if a.hi != nil && b.lo != nil && a.hi.Cmp(b.lo) <= 0 {
		return tTrue
	}
	if a.lo != nil && b.hi != nil && a.lo.Cmp(b.hi) > 0 {
		return tFalse
	}
	return newTerm("<=", SBool, a, b)
}
func Gt(a, b *Term) *Term { return Lt(b, a) }
func Ge(a, b *Term) *Term { return Le(b, a) }
func Ne(a, b *Term) *Term { return Not(Eq(a, b)) }

func Not(a *Term) *Term {
	if a.isConst() {
		return BoolConst(a.c.Sign() == 0)
	}
	if a.op == "not" {
		return a.args[0]
	}
	return newTerm("not", SBool, a)
}
func And(xs ...*Term) *Term {
	var out []*Term
	for _, x := range xs {
		if x.isFalse() {
			return tFalse
		}
		if x.isTrue() {
			continue
		}
		out = append(out, x)
	}
	switch len(out) {
	case 0:
		return tTrue
	case 1:
		return out[0]
	}
	return newTerm("and", SBool, out...)
}
func Or(xs ...*Term) *Term {
	var out []*Term
	for _, x := range xs {
		if x.isTrue() {
			return tTrue
		}
		if x.isFalse() {
			continue
		}
		out = append(out, x)
	}
	switch len(out) {
	case 0:
		return tFalse
	case 1:
		return out[0]
	}
	return newTerm("or", SBool, out...)
}
func Iff(a, b *Term) *Term {
	if a.isConst() && b.isConst() {
		return BoolConst(a.c.Sign() == b.c.Sign())
	}
	if a.isConst() {
		a, b = b, a
	}
	if b.isTrue() {
		return a
	}
	if b.isFalse() {
		return Not(a)
	}
	if a == b {
		return tTrue
	}
	return newTerm("=", SBool, a, b)
}
func Implies(a, b *Term) *Term { return Or(Not(a), b) }

// UF builds an application of an uninterpreted Int-valued function.
func UF(name string, args ...*Term) *Term {
	t := newTerm("uf", SInt, args...)
	t.name = name
	return t
}

// ---- Go division semantics ----------------------------------------------

func absT(a *Term) *Term { return Ite(Lt(a, IntConst64(0)), Neg(a), a) }

// TDiv is Go's truncated signed division (b != 0 assumed).
func TDiv(a, b *Term) *Term {
	if a.lo != nil && a.lo.Sign() >= 0 && b.lo != nil && b.lo.Sign() > 0 {
		return EDiv(a, b)
	}
	if a.isConst() && b.isConst() && b.c.Sign() != 0 {
		return IntConst(new(big.Int).Quo(a.c, b.c))
	}
	q := EDiv(absT(a), absT(b))
	neg := Ne(boolToInt(Lt(a, IntConst64(0))), boolToInt(Lt(b, IntConst64(0))))
	return Ite(neg, Neg(q), q)
}

// TRem is Go's % (sign follows dividend).
func TRem(a, b *Term) *Term {
	if a.lo != nil && a.lo.Sign() >= 0 && b.lo != nil && b.lo.Sign() > 0 {
		return EMod(a, b)
	}
	if a.isConst() && b.isConst() && b.c.Sign() != 0 {
		return IntConst(new(big.Int).Rem(a.c, b.c))
	}
	return Sub(a, Mul(b, TDiv(a, b)))
}

func boolToInt(b *Term) *Term { return Ite(b, IntConst64(1), IntConst64(0)) }

// ---- printing ------------------------------------------------------------

func smtInt(v *big.Int) string {
	if v.Sign() < 0 {
		return "(- " + new(big.Int).Neg(v).String() + ")"
	}
	return v.String()
}

func smtName(s string) string {
	var b strings.Builder
	b.WriteByte('|')
	for _, r := range s {
		if r == '|' || r == '\\' {
			b.WriteByte('_')
		} else {
			b.WriteRune(r)
		}
	}
	b.WriteByte('|')
	return b.String()
}

// collectVars returns variables and UF symbols (with arity) used by t.
func collectVars(t *Term, vars map[string]*Term, ufs map[string]int, seen map[*Term]bool) {
	if seen[t] {
		return
	}
	seen[t] = true
	switch t.op {
	case "var":
		vars[t.name] = t
	case "uf":
		ufs[t.name] = len(t.args)
	}
	for _, a := range t.args {
		collectVars(a, vars, ufs, seen)
	}
}

// String renders a term for humans (evidence samples, debugging).
func (t *Term) String() string {
	switch t.op {
	case "const":
		if t.sort == SBool {
			if t.c.Sign() != 0 {
				return "true"
			}
			return "false"
		}
		return t.c.String()
	case "var":
		return t.name
	case "wrap":
		return "wrap_" + t.name + "(" + t.args[0].String() + ")"
	case "uf":
		var s []string
		for _, a := range t.args {
			s = append(s, a.String())
		}
		return t.name + "(" + strings.Join(s, ",") + ")"
	}
	var s []string
	for _, a := range t.args {
		s = append(s, a.String())
	}
	return "(" + t.op + " " + strings.Join(s, " ") + ")"
}

func sortedKeys[V any](m map[string]V) []string {
	ks := make([]string, 0, len(m))
	for k := range m {
		ks = append(ks, k)
	}
	sort.Strings(ks)
	return ks
}

var _ = fmt.Sprintf
