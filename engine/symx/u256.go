package symx

// holiman/uint256 modelled as one 256-bit unsigned Int term with wrap
// (assumption A-U256).  A uint256.Int cell is the interpreter's [4]uint64
// array; when symbolic, limb 0 holds a u256v and limbs 1..3 are zero.

import (
	"fmt"
	"go/types"
	"math/big"
	"strings"
)

const u256pkg = "github.com/holiman/uint256"

var two64 = pow2(64)

func nilDeref() { panic(targetRuntimeError("invalid memory address or nil pointer dereference")) }

func u256Load(p value) *Term {
	pv, ok := p.(*value)
	if !ok {
		unsupp("uint256: receiver %T", p)
	}
	if pv == nil {
		nilDeref()
	}
	return u256OfArray((*pv).(array))
}

func u256OfArray(a array) *Term {
	if u, ok := a[0].(u256v); ok {
		return u.t
	}
	v := new(big.Int)
	for i := 3; i >= 0; i-- {
		l, ok := a[i].(uint64)
		if !ok {
			unsupp("uint256 limb of type %T", a[i])
		}
		v.Lsh(v, 64)
		v.Or(v, new(big.Int).SetUint64(l))
	}
	return IntConst(v)
}

func u256Array(c *pathCtx, t *Term) array {
	if t.isConst() {
		v := kU256.wrapBig(t.c)
		a := make(array, 4)
		mask := new(big.Int).Sub(two64, big1)
		for i := 0; i < 4; i++ {
			a[i] = new(big.Int).And(new(big.Int).Rsh(v, uint(64*i)), mask).Uint64()
		}
		return a
	}
	return array{u256v{t: t, ctx: c}, uint64(0), uint64(0), uint64(0)}
}

func u256Store(c *pathCtx, p value, t *Term) {
	pv := p.(*value)
	if pv == nil {
		nilDeref()
	}
	*pv = u256Array(c, t)
}

func newU256(c *pathCtx, t *Term) value {
	var cell value = u256Array(c, t)
	return &cell
}

// token strings stand for symbolic decimal renderings
func (c *pathCtx) tokenFor(t *Term) string {
	if c.scratch["tokens"] == nil {
		c.scratch["tokens"] = map[string]*Term{}
	}
	m := c.scratch["tokens"].(map[string]*Term)
	s := fmt.Sprintf("⟦u256:%d⟧", t.id)
	m[s] = t
	return s
}

func (c *pathCtx) tokenTerm(s string) (*Term, bool) {
	m, _ := c.scratch["tokens"].(map[string]*Term)
	t, ok := m[s]
	return t, ok
}

func registerU256(ex *Explorer) {
	m := func(name string) string { return "(*" + u256pkg + ".Int)." + name }
	bin := func(f func(c *pathCtx, x, y *Term) *Term) func(fr *frame, args []value) value {
		return func(fr *frame, args []value) value {
			c := fr.i.ctx
			x, y := u256Load(args[1]), u256Load(args[2])
			u256Store(c, args[0], f(c, x, y))
			return args[0]
		}
	}
	ex.register(u256pkg+".NewInt", func(fr *frame, args []value) value {
		return newU256(fr.i.ctx, termOf(args[0]))
	})
	ex.register(m("Add"), bin(func(c *pathCtx, x, y *Term) *Term { return Wrap(kU256, Add(x, y)) }))
	ex.register(m("Sub"), bin(func(c *pathCtx, x, y *Term) *Term { return Wrap(kU256, Sub(x, y)) }))
	ex.register(m("Mul"), bin(func(c *pathCtx, x, y *Term) *Term { return Wrap(kU256, Mul(x, y)) }))
	ex.register(m("Div"), bin(func(c *pathCtx, x, y *Term) *Term {
		if y.isConst() {
			if y.c.Sign() == 0 {
				return IntConst64(0)
			}
			return EDiv(x, y)
		}
		return Ite(Eq(y, IntConst64(0)), IntConst64(0), EDiv(x, y))
	}))
	ex.register(m("Mod"), bin(func(c *pathCtx, x, y *Term) *Term {
		if y.isConst() {
			if y.c.Sign() == 0 {
				return IntConst64(0)
			}
			return EMod(x, y)
		}
		return Ite(Eq(y, IntConst64(0)), IntConst64(0), EMod(x, y))
	}))
	ex.register(m("DivMod"), func(fr *frame, args []value) value {
		c := fr.i.ctx
		x, y := u256Load(args[1]), u256Load(args[2])
		var q, r *Term
		if y.isConst() && y.c.Sign() != 0 {
			q, r = EDiv(x, y), EMod(x, y)
		} else if y.isConst() {
			q, r = IntConst64(0), IntConst64(0)
		} else {
			z := Eq(y, IntConst64(0))
			q, r = Ite(z, IntConst64(0), EDiv(x, y)), Ite(z, IntConst64(0), EMod(x, y))
		}
		// m first: z and m may alias x / y
		u256Store(c, args[3], r)
		u256Store(c, args[0], q)
		return tuple{args[0], args[3]}
	})
	ex.register(m("Set"), func(fr *frame, args []value) value {
		u256Store(fr.i.ctx, args[0], u256Load(args[1]))
		return args[0]
	})
	ex.register(m("Clone"), func(fr *frame, args []value) value {
		return newU256(fr.i.ctx, u256Load(args[0]))
	})
	ex.register(m("SetUint64"), func(fr *frame, args []value) value {
		u256Store(fr.i.ctx, args[0], termOf(args[1]))
		return args[0]
	})
	ex.register(m("Clear"), func(fr *frame, args []value) value {
		u256Store(fr.i.ctx, args[0], IntConst64(0))
		return args[0]
	})
	ex.register(m("SetOne"), func(fr *frame, args []value) value {
		u256Store(fr.i.ctx, args[0], IntConst64(1))
		return args[0]
	})
	ex.register(m("Uint64"), func(fr *frame, args []value) value {
		return mkScalar(fr.i.ctx, types.Uint64, EMod(u256Load(args[0]), IntConst(two64)))
	})
	ex.register(m("IsUint64"), func(fr *frame, args []value) value {
		return mkScalar(fr.i.ctx, types.Bool, Lt(u256Load(args[0]), IntConst(two64)))
	})
	ex.register(m("IsZero"), func(fr *frame, args []value) value {
		return mkScalar(fr.i.ctx, types.Bool, Eq(u256Load(args[0]), IntConst64(0)))
	})
	ex.register(m("Sign"), func(fr *frame, args []value) value {
		x := u256Load(args[0])
		t := Ite(Eq(x, IntConst64(0)), IntConst64(0), Ite(Lt(x, IntConst(pow2(255))), IntConst64(1), IntConst64(-1)))
		return mkScalar(fr.i.ctx, types.Int, t)
	})
	ex.register(m("Cmp"), func(fr *frame, args []value) value {
		x, y := u256Load(args[0]), u256Load(args[1])
		t := Ite(Lt(x, y), IntConst64(-1), Ite(Gt(x, y), IntConst64(1), IntConst64(0)))
		return mkScalar(fr.i.ctx, types.Int, t)
	})
	cmp := func(f func(x, y *Term) *Term) func(fr *frame, args []value) value {
		return func(fr *frame, args []value) value {
			return mkScalar(fr.i.ctx, types.Bool, f(u256Load(args[0]), u256Load(args[1])))
		}
	}
	// overflow-reporting and uint64-operand variants
	over := func(f func(x, y *Term) *Term, ovf func(r *Term) *Term) func(fr *frame, args []value) value {
		return func(fr *frame, args []value) value {
			c := fr.i.ctx
			r := f(u256Load(args[1]), u256Load(args[2]))
			u256Store(c, args[0], Wrap(kU256, r))
			return tuple{args[0], mkScalar(c, types.Bool, ovf(r))}
		}
	}
	ex.register(m("AddOverflow"), over(Add, func(r *Term) *Term { return Ge(r, IntConst(pow2(256))) }))
	ex.register(m("SubOverflow"), over(Sub, func(r *Term) *Term { return Lt(r, IntConst64(0)) }))
	ex.register(m("MulOverflow"), over(Mul, func(r *Term) *Term { return Ge(r, IntConst(pow2(256))) }))
	ex.register(m("AddUint64"), func(fr *frame, args []value) value {
		u256Store(fr.i.ctx, args[0], Wrap(kU256, Add(u256Load(args[1]), termOf(args[2]))))
		return args[0]
	})
	ex.register(m("SubUint64"), func(fr *frame, args []value) value {
		u256Store(fr.i.ctx, args[0], Wrap(kU256, Sub(u256Load(args[1]), termOf(args[2]))))
		return args[0]
	})
	ex.register(m("CmpUint64"), func(fr *frame, args []value) value {
		x, y := u256Load(args[0]), termOf(args[1])
		return mkScalar(fr.i.ctx, types.Int, Ite(Lt(x, y), IntConst64(-1), Ite(Gt(x, y), IntConst64(1), IntConst64(0))))
	})
	ex.register(m("LtUint64"), func(fr *frame, args []value) value {
		return mkScalar(fr.i.ctx, types.Bool, Lt(u256Load(args[0]), termOf(args[1])))
	})
	ex.register(m("GtUint64"), func(fr *frame, args []value) value {
		return mkScalar(fr.i.ctx, types.Bool, Gt(u256Load(args[0]), termOf(args[1])))
	})
	shift := func(left bool) func(fr *frame, args []value) value {
		return func(fr *frame, args []value) value {
			c := fr.i.ctx
			n := termOf(args[2])
			if !n.isConst() {
				n = IntConst(c.concretize(n))
			}
			k := uint(n.c.Uint64())
			x := u256Load(args[1])
			var r *Term
			switch {
			case k >= 256:
				r = IntConst64(0)
			case left:
				r = Wrap(kU256, Mul(x, IntConst(pow2(k))))
			default:
				r = EDiv(x, IntConst(pow2(k)))
			}
			u256Store(c, args[0], r)
			return args[0]
		}
	}
	ex.register(m("Lsh"), shift(true))
	ex.register(m("Rsh"), shift(false))
	ex.register(m("Uint64WithOverflow"), func(fr *frame, args []value) value {
		c := fr.i.ctx
		x := u256Load(args[0])
		return tuple{mkScalar(c, types.Uint64, EMod(x, IntConst(two64))), mkScalar(c, types.Bool, Ge(x, IntConst(two64)))}
	})
	ex.register(m("SetAllOne"), func(fr *frame, args []value) value {
		u256Store(fr.i.ctx, args[0], IntConst(new(big.Int).Sub(pow2(256), big1)))
		return args[0]
	})
	ex.register(m("Not"), func(fr *frame, args []value) value {
		u256Store(fr.i.ctx, args[0], Sub(IntConst(new(big.Int).Sub(pow2(256), big1)), u256Load(args[1])))
		return args[0]
	})
	ex.register(m("Neg"), func(fr *frame, args []value) value {
		u256Store(fr.i.ctx, args[0], Wrap(kU256, Sub(IntConst64(0), u256Load(args[1]))))
		return args[0]
	})
	ex.register(m("BitLen"), func(fr *frame, args []value) value {
		c := fr.i.ctx
		x := u256Load(args[0])
		if !x.isConst() {
			x = IntConst(c.concretize(x))
		}
		return x.c.BitLen()
	})
	ex.register(m("Exp"), func(fr *frame, args []value) value {
		c := fr.i.ctx
		b, e := u256Load(args[1]), u256Load(args[2])
		if !e.isConst() {
			e = IntConst(c.concretize(e))
		}
		if b.isConst() {
			u256Store(c, args[0], IntConst(kU256.wrapBig(new(big.Int).Exp(b.c, e.c, pow2(256)))))
			return args[0]
		}
		if e.c.BitLen() > 6 {
			unsupp("uint256.Exp of a symbolic base with a large exponent")
		}
		r := IntConst64(1)
		for k := uint64(0); k < e.c.Uint64(); k++ {
			r = Wrap(kU256, Mul(r, b))
		}
		u256Store(c, args[0], r)
		return args[0]
	})
	fixedBytes := func(n int) func(fr *frame, args []value) value {
		return func(fr *frame, args []value) value {
			c := fr.i.ctx
			x := u256Load(args[0])
			if !x.isConst() {
				x = IntConst(c.concretize(x))
			}
			bz := make([]byte, 32)
			x.c.FillBytes(bz)
			return array(bytesToValues(bz[32-n:]))
		}
	}
	ex.register(m("Bytes32"), fixedBytes(32))
	ex.register(m("Bytes20"), fixedBytes(20))
	ex.register(m("SetFromBig"), func(fr *frame, args []value) value {
		c := fr.i.ctx
		t := bigTerm(args[1])
		u256Store(c, args[0], Wrap(kU256, t))
		return mkScalar(c, types.Bool, Or(Lt(t, IntConst64(0)), Ge(t, IntConst(pow2(256)))))
	})
	// signed (two's complement) comparisons
	signed := func(x *Term) *Term { return Ite(Lt(x, IntConst(pow2(255))), x, Sub(x, IntConst(pow2(256)))) }
	ex.register(m("Sgt"), cmp(func(x, y *Term) *Term { return Gt(signed(x), signed(y)) }))
	ex.register(m("Slt"), cmp(func(x, y *Term) *Term { return Lt(signed(x), signed(y)) }))
	ex.register(m("Lt"), cmp(Lt))
	ex.register(m("Gt"), cmp(Gt))
	ex.register(m("Eq"), cmp(Eq))
	ex.register(m("Bytes"), func(fr *frame, args []value) value {
		x := u256Load(args[0])
		if x.isConst() {
			return bytesToValues(x.c.Bytes())
		}
		return handleBytes(&handle{kind: "u256", snap: &snap{kind: 'U', term: x}})
	})
	ex.register(m("SetBytes"), func(fr *frame, args []value) value {
		c := fr.i.ctx
		b := args[1].([]value)
		if h, ok := handleOf(b); ok {
			if h.kind != "u256" {
				unsupp("uint256.SetBytes of opaque %s bytes", h.kind)
			}
			u256Store(c, args[0], h.snap.term)
			return args[0]
		}
		bz, ok := concreteBytes(b)
		if !ok {
			unsupp("uint256.SetBytes of symbolic bytes")
		}
		if len(bz) > 32 {
			bz = bz[len(bz)-32:]
		}
		u256Store(c, args[0], IntConst(new(big.Int).SetBytes(bz)))
		return args[0]
	})
	str := func(fr *frame, args []value) value {
		x := u256Load(args[0])
		if x.isConst() {
			return x.c.String()
		}
		return fr.i.ctx.tokenFor(x)
	}
	ex.register(m("Dec"), str)
	ex.register(m("String"), func(fr *frame, args []value) value {
		x := u256Load(args[0])
		if x.isConst() {
			return "0x" + x.c.Text(16)
		}
		return fr.i.ctx.tokenFor(x)
	})
	fromDec := func(must bool) func(fr *frame, args []value) value {
		return func(fr *frame, args []value) value {
			c := fr.i.ctx
			s := args[0].(string)
			if t, ok := c.tokenTerm(s); ok {
				if must {
					return newU256(c, t)
				}
				return tuple{newU256(c, t), iface{}}
			}
			v, ok := new(big.Int).SetString(strings.TrimPrefix(s, "+"), 10)
			if !ok || v.Sign() < 0 || v.BitLen() > 256 {
				if must {
					panic(targetPanic{iface{t: types.Typ[types.String], v: "uint256: bad decimal " + s}})
				}
				return tuple{(*value)(nil), fr.i.newError("uint256: bad decimal")}
			}
			if must {
				return newU256(c, IntConst(v))
			}
			return tuple{newU256(c, IntConst(v)), iface{}}
		}
	}
	ex.register(u256pkg+".MustFromDecimal", fromDec(true))
	ex.register(u256pkg+".FromDecimal", fromDec(false))
}
