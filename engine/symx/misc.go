package symx

// Remaining environment stubs: RLP (A-CODEC), tx hash (A-HASH), clocks.

import (
	"crypto/sha256"
	"fmt"
	"go/token"
	"go/types"

	"golang.org/x/tools/go/ssa"
)

const rlpPkg = "github.com/ethereum/go-ethereum/rlp"

// rlpViaMethod runs v.EncodeRLP(w) with a capturing writer and returns the
// handle describing everything that was written.
func (i *interpreter) rlpViaMethod(fr *frame, m *ssa.Function, recv value) *handle {
	capT := namedTypeI(i, "github.com/rigochain/rigo-go/zzverif", "Capture")
	cell := zero(capT)
	w := iface{t: types.NewPointer(capT), v: &cell}
	res := call(i, fr, token.NoPos, m, []value{recv, w})
	if e, ok := res.(iface); ok && e.t != nil {
		unsupp("%s returned an error", m)
	}
	bufs := cell.(structure)[0].([]value)
	s := &snap{kind: 'L'}
	for _, b := range bufs {
		s.elems = append(s.elems, i.snapOf(fr, b, types.NewSlice(types.Typ[types.Uint8]), modeProto, false))
	}
	return &handle{kind: "rlp", snap: s}
}

func namedTypeI(i *interpreter, pkg, name string) types.Type {
	p := i.prog.ImportedPackage(pkg)
	if p == nil {
		unsupp("package %s not loaded", pkg)
	}
	m := p.Type(name)
	if m == nil {
		unsupp("type %s.%s not found", pkg, name)
	}
	return m.Object().Type()
}

func (i *interpreter) rlpEncode(fr *frame, v value) []value {
	it := v.(iface)
	if it.t == nil {
		return handleBytes(&handle{kind: "rlp", snap: &snap{kind: 'N'}})
	}
	if m := i.findMethod(it.t, "EncodeRLP"); m != nil && repoType(it.t) {
		h := i.rlpViaMethod(fr, m, it.v)
		if len(h.snap.elems) == 0 {
			return []value{}
		}
		return handleBytes(h)
	}
	s := i.snapOf(fr, it.v, it.t, modeProto, true)
	return handleBytes(&handle{kind: "rlp", snap: s})
}

func registerRLP(ex *Explorer) {
	ex.register(rlpPkg+".EncodeToBytes", func(fr *frame, args []value) value {
		return tuple{fr.i.rlpEncode(fr, args[0]), iface{}}
	})
	ex.register(rlpPkg+".Encode", func(fr *frame, args []value) value {
		b := fr.i.rlpEncode(fr, args[1])
		w := args[0].(iface)
		wm := fr.i.findMethod(w.t, "Write")
		if wm == nil {
			unsupp("rlp.Encode: writer %s has no Write", w.t)
		}
		call(fr.i, fr, token.NoPos, wm, []value{w.v, b})
		return iface{}
	})
}

func registerMisc(ex *Explorer) {
	// transaction hash: injective on the identity of the encoded bytes
	ex.register("(github.com/tendermint/tendermint/types.Tx).Hash", func(fr *frame, args []value) value {
		b := args[0].([]value)
		if h, ok := handleOf(b); ok {
			if h.id == 0 {
				handleBytes(h)
			}
			sum := sha256.Sum256([]byte(fmt.Sprintf("zzverif-handle-%d-%s", h.id, h.kind)))
			return bytesToValues(sum[:])
		}
		bz, ok := concreteBytes(b)
		if !ok {
			unsupp("Tx.Hash of symbolic bytes")
		}
		sum := sha256.Sum256(bz)
		return bytesToValues(sum[:])
	})
}
