package symx

// Remaining environment stubs: RLP (A-CODEC), tx hash (A-HASH), clocks.

import (
	"crypto/sha256"
	"encoding/hex"
	"fmt"
	"go/token"
	"go/types"
	"path/filepath"
	"strconv"
	"strings"

	"golang.org/x/tools/go/ssa"
)

const rlpPkg = "github.com/ethereum/go-ethereum/rlp"

// rlpViaMethod runs v.EncodeRLP(w) with a capturing writer and returns the
// handle describing everything that was written.
func (i *interpreter) rlpViaMethod(fr *frame, m *ssa.Function, recv value) *handle {
	capT := namedTypeI(i, "github.com/rigochain/rigo-go/zzverif", "Capture")
	cell := zero(capT)
	w := iface{t: types.NewPointer(capT), v: &cell}
	res := call(i, fr, token.NoPos, m, []value{recv, w})
	if e, ok := res.(iface); ok && e.t != nil {
		unsupp("%s returned an error", m)
	}
	bufs := cell.(structure)[0].([]value)
	s := &snap{kind: 'L'}
	for _, b := range bufs {
		s.elems = append(s.elems, i.snapOf(fr, b, types.NewSlice(types.Typ[types.Uint8]), modeProto, false))
	}
	return &handle{kind: "rlp", snap: s}
}

func namedTypeI(i *interpreter, pkg, name string) types.Type {
	p := i.prog.ImportedPackage(pkg)
	if p == nil {
		unsupp("package %s not loaded", pkg)
	}
	m := p.Type(name)
	if m == nil {
		unsupp("type %s.%s not found", pkg, name)
	}
	return m.Object().Type()
}

func (i *interpreter) rlpEncode(fr *frame, v value) []value {
	it := v.(iface)
	if it.t == nil {
		return handleBytes(&handle{kind: "rlp", snap: &snap{kind: 'N'}})
	}
	if m := i.findMethod(it.t, "EncodeRLP"); m != nil && repoType(it.t) {
		h := i.rlpViaMethod(fr, m, it.v)
		if len(h.snap.elems) == 0 {
			return []value{}
		}
		return handleBytes(h)
	}
	s := i.snapOf(fr, it.v, it.t, modeProto, true)
	return handleBytes(&handle{kind: "rlp", snap: s})
}

func registerRLP(ex *Explorer) {
	ex.register(rlpPkg+".EncodeToBytes", func(fr *frame, args []value) value {
		return tuple{fr.i.rlpEncode(fr, args[0]), iface{}}
	})
	ex.register(rlpPkg+".Encode", func(fr *frame, args []value) value {
		b := fr.i.rlpEncode(fr, args[1])
		w := args[0].(iface)
		wm := fr.i.findMethod(w.t, "Write")
		if wm == nil {
			unsupp("rlp.Encode: writer %s has no Write", w.t)
		}
		call(fr.i, fr, token.NoPos, wm, []value{w.v, b})
		return iface{}
	})
}

func strArgs(v value) []string {
	var out []string
	for _, e := range v.([]value) {
		out = append(out, e.(string))
	}
	return out
}

func registerStrings(ex *Explorer) {
	ex.register("strings.Join", func(fr *frame, args []value) value {
		return strings.Join(strArgs(args[0]), args[1].(string))
	})
	ex.register("path/filepath.Join", func(fr *frame, args []value) value { return filepath.Join(strArgs(args[0])...) })
	ex.register("path/filepath.IsAbs", func(fr *frame, args []value) value { return filepath.IsAbs(args[0].(string)) })
	ex.register("strings.ToUpper", func(fr *frame, args []value) value { return strings.ToUpper(args[0].(string)) })
	ex.register("strings.ToLower", func(fr *frame, args []value) value { return strings.ToLower(args[0].(string)) })
	ex.register("strings.Repeat", func(fr *frame, args []value) value {
		return strings.Repeat(args[0].(string), int(asInt64(args[1])))
	})
	ex.register("strings.ReplaceAll", func(fr *frame, args []value) value {
		return strings.ReplaceAll(args[0].(string), args[1].(string), args[2].(string))
	})
	ex.register("strings.HasSuffix", func(fr *frame, args []value) value {
		return strings.HasSuffix(args[0].(string), args[1].(string))
	})
	ex.register("strings.HasPrefix", func(fr *frame, args []value) value {
		return strings.HasPrefix(args[0].(string), args[1].(string))
	})
	ex.register("strings.TrimPrefix", func(fr *frame, args []value) value {
		return strings.TrimPrefix(args[0].(string), args[1].(string))
	})
	ex.register("encoding/hex.EncodeToString", func(fr *frame, args []value) value {
		bz, ok := concreteBytes(args[0].([]value))
		if !ok {
			return "<hex of symbolic bytes>"
		}
		return hex.EncodeToString(bz)
	})
	ex.register("encoding/hex.DecodeString", func(fr *frame, args []value) value {
		bz, err := hex.DecodeString(args[0].(string))
		if err != nil {
			return tuple{[]value(nil), fr.i.newError(err.Error())}
		}
		return tuple{bytesToValues(bz), iface{}}
	})
	ex.register("strconv.Itoa", func(fr *frame, args []value) value { return strconv.Itoa(int(asInt64(args[0]))) })
	ex.register("strconv.FormatInt", func(fr *frame, args []value) value {
		if sv, ok := args[0].(symv); ok {
			return fmt.Sprintf("<int %s>", clip(sv.t.String(), 40))
		}
		return strconv.FormatInt(asInt64(args[0]), int(asInt64(args[1])))
	})
	ex.register("strconv.FormatUint", func(fr *frame, args []value) value {
		if sv, ok := args[0].(symv); ok {
			return fmt.Sprintf("<uint %s>", clip(sv.t.String(), 40))
		}
		return strconv.FormatUint(asUint64(args[0]), int(asInt64(args[1])))
	})
	ex.register("strconv.ParseInt", func(fr *frame, args []value) value {
		if t, ok := fr.i.ctx.tokenTerm(args[0].(string)); ok {
			return tuple{mkScalar(fr.i.ctx, types.Int64, t), iface{}}
		}
		v, err := strconv.ParseInt(args[0].(string), int(asInt64(args[1])), int(asInt64(args[2])))
		if err != nil {
			return tuple{int64(0), fr.i.newError(err.Error())}
		}
		return tuple{v, iface{}}
	})
	// strings.Builder: only copyCheck / String use unsafe
	ex.register("(*strings.Builder).copyCheck", noop)
	ex.register("(*strings.Builder).String", func(fr *frame, args []value) value {
		p := args[0].(*value)
		if p == nil {
			nilDeref()
		}
		buf := (*p).(structure)[1].([]value)
		s, ok := valuesToString(buf)
		if !ok {
			unsupp("strings.Builder with symbolic bytes")
		}
		return s
	})
}

func registerFilesAndTime(ex *Explorer) {
	// protoio delimited codec = the plain proto stub
	ex.register("github.com/tendermint/tendermint/libs/protoio.MarshalDelimited", func(fr *frame, args []value) value {
		return fr.i.marshalAny(fr, args[0], modeProto, "proto")
	})
	ex.register("github.com/tendermint/tendermint/libs/protoio.UnmarshalDelimited", func(fr *frame, args []value) value {
		return fr.i.unmarshalAny(fr, args[0], args[1], modeProto)
	})
	ex.register("github.com/gogo/protobuf/proto.Equal", func(fr *frame, args []value) value {
		a, b := args[0].(iface), args[1].(iface)
		if a.t == nil || b.t == nil {
			return a.t == nil && b.t == nil
		}
		sa := fr.i.snapOf(fr, a.v, a.t, modeProto, true)
		sb := fr.i.snapOf(fr, b.v, b.t, modeProto, true)
		return mkScalar(fr.i.ctx, types.Bool, snapEq(sa, sb))
	})
	// clocks are node-local (C01): every reading is an arbitrary instant between 2020 and
	// 2096, not earlier than the previous reading of this path.  A Time without monotonic
	// part is {wall: nanoseconds (0 here), ext: seconds since year 1, loc: nil = UTC}.
	clock := func(fr *frame, args []value) value {
		c := fr.i.ctx
		if fixed, ok := c.scratch["clock.fixed"].(*Term); ok {
			// the harness drives the clock (zzverif.ClockStart / SetClock)
			tm := zero(namedType(fr, "time", "Time")).(structure)
			tm[1] = mkScalar(c, types.Int64, Add(fixed, IntConst64(62135596800)))
			return tm
		}
		n, _ := c.scratch["clock.n"].(int)
		c.scratch["clock.n"] = n + 1
		t := c.nondet(fmt.Sprintf("clock.sec#%d", n), kI64)
		c.assume(And(Ge(t, IntConst64(1577836800)), Le(t, IntConst64(4000000000))))
		if prev, ok := c.scratch["clock.prev"].(*Term); ok {
			c.assume(Ge(t, prev))
		}
		c.scratch["clock.prev"] = t
		tm := zero(namedType(fr, "time", "Time")).(structure)
		tm[1] = mkScalar(c, types.Int64, Add(t, IntConst64(62135596800)))
		return tm
	}
	ex.register("time.Now", clock)
	ex.register("github.com/tendermint/tendermint/types/time.Now", clock)
	// a tiny file system: path -> content; paths below /nonexistent/ fail
	files := func(c *pathCtx) map[string][]value {
		if c.scratch["files"] == nil {
			c.scratch["files"] = map[string][]value{}
		}
		return c.scratch["files"].(map[string][]value)
	}
	ex.register("github.com/tendermint/tendermint/libs/tempfile.WriteFileAtomic", func(fr *frame, args []value) value {
		name := args[0].(string)
		if strings.HasPrefix(name, "/nonexistent/") {
			return fr.i.newError("open " + name + ": no such file or directory")
		}
		fr.i.ctx.world.durable("file:"+name, "write")
		files(fr.i.ctx)[name] = args[1].([]value)
		return iface{}
	})
	ex.register("os.ReadFile", func(fr *frame, args []value) value {
		name := args[0].(string)
		b, ok := files(fr.i.ctx)[name]
		if !ok {
			return tuple{[]value(nil), fr.i.newError("open " + name + ": no such file or directory")}
		}
		return tuple{b, iface{}}
	})
	ex.register("time.runtimeNano", func(fr *frame, args []value) value { return int64(0) })
	ex.register("time.now", func(fr *frame, args []value) value { return tuple{int64(0), int32(0), int64(0)} })
	ex.register("os.MkdirAll", func(fr *frame, args []value) value { return iface{} })
}

// Signatures (assumption A-SIG): a signature is an opaque handle naming the
// key and the exact message; recovery yields the key's address only for that
// very message, an unrelated address otherwise.
type keyInfo struct {
	addr, pub []byte
}

func keyTable(c *pathCtx) map[string]*keyInfo {
	if c.scratch["keys"] == nil {
		c.scratch["keys"] = map[string]*keyInfo{}
	}
	return c.scratch["keys"].(map[string]*keyInfo)
}

func registerSig(ex *Explorer) {
	const cp = "github.com/rigochain/rigo-go/types/crypto."
	ex.register(zz+"RegisterKey", func(fr *frame, args []value) value {
		addr, _ := concreteBytes(args[1].([]value))
		pub, _ := concreteBytes(args[2].([]value))
		keyTable(fr.i.ctx)[args[0].(string)] = &keyInfo{addr: addr, pub: pub}
		return nil
	})
	ex.register(cp+"ImportPrvKeyHex", func(fr *frame, args []value) value {
		return tuple{boxed(args[0].(string)), iface{}}
	})
	ex.register(cp+"Sign", func(fr *frame, args []value) value {
		pv := args[1].(*value)
		if pv == nil {
			nilDeref()
		}
		key := (*pv).(string)
		msg := args[0].([]value)
		s := &snap{kind: 'S', names: []string{"key", "msg"}, elems: []*snap{{kind: 'T', str: key}, {kind: 'V', raw: append([]value{}, msg...)}}}
		return tuple{handleBytes(&handle{kind: "sig", snap: s}), iface{}}
	})
	// crypto.Sig2Addr itself is the repository's code and is executed; only the
	// curve arithmetic below it is replaced: recovery over exactly the signed
	// message (compared through its hash) yields the signer's key, anything else
	// an unrelated key.  A recovered *ecdsa.PublicKey is a boxed *keyInfo.
	ex.register("github.com/ethereum/go-ethereum/crypto.SigToPub", func(fr *frame, args []value) value {
		c := fr.i.ctx
		hash, sig := args[0].([]value), args[1].([]value)
		h, ok := handleOf(sig)
		if !ok || h.kind != "sig" {
			return tuple{(*value)(nil), fr.i.newError("invalid signature")}
		}
		ki := keyTable(c)[h.snap.elems[0].str]
		if ki == nil {
			unsupp("signature by an unregistered key")
		}
		signed := h.snap.elems[1].raw.([]value)
		match := tFalse
		if hh, ok := handleOf(hash); ok && hh.kind == "hash" {
			want := &snap{kind: 'L', elems: []*snap{fr.i.snapOf(fr, signed, types.NewSlice(types.Typ[types.Uint8]), modeProto, false)}}
			match = snapEq(hh.snap, want)
		}
		if c.branch(match) {
			return tuple{boxed(ki), iface{}}
		}
		// recovery over a different message: some unrelated key
		other := make([]byte, 20)
		other[0], other[19] = 0xBA, 0xD0
		opub := make([]byte, 33)
		opub[0], opub[1] = 0x02, 0xBD
		return tuple{boxed(&keyInfo{addr: other, pub: opub}), iface{}}
	})
	// range check of (v, r, s) against the curve order: the curve constants live in
	// package-level variables of a package whose init is not run; the answer is an
	// arbitrary boolean (both outcomes are explored)
	ex.register("github.com/ethereum/go-ethereum/crypto.ValidateSignatureValues", func(fr *frame, args []value) value {
		return fr.i.ctx.branch(fr.i.ctx.nondet("crypto.validSignatureValues", kBool))
	})
	pubKeyInfo := func(v value) *keyInfo {
		pv, ok := v.(*value)
		if !ok || pv == nil {
			nilDeref()
		}
		ki, ok := (*pv).(*keyInfo)
		if !ok {
			unsupp("ecdsa.PublicKey that was not recovered from a signature (%T)", *pv)
		}
		return ki
	}
	ex.register(cp+"Pub2Addr", func(fr *frame, args []value) value { return bytesToValues(pubKeyInfo(args[0]).addr) })
	ex.register(cp+"CompressPubkey", func(fr *frame, args []value) value { return bytesToValues(pubKeyInfo(args[0]).pub) })
	ex.register(cp+"PubBytes2Addr", func(fr *frame, args []value) value {
		pub, ok := concreteBytes(args[0].([]value))
		if !ok {
			unsupp("PubBytes2Addr of symbolic bytes")
		}
		for _, ki := range keyTable(fr.i.ctx) {
			if string(ki.pub) == string(pub) {
				return tuple{bytesToValues(ki.addr), iface{}}
			}
		}
		// unknown key: an address derived injectively from the key bytes
		sum := sha256.Sum256(pub)
		return tuple{bytesToValues(sum[:20]), iface{}}
	})
}

// tendermint secp256k1 keys (A-SIG): public key / address come from the key
// table registered by the harness, signatures are opaque (key, message) handles.
func registerTmKeys(ex *Explorer) {
	const kp = "github.com/tendermint/tendermint/crypto/secp256k1."
	firstKey := func(c *pathCtx) (string, *keyInfo) {
		ks := sortedKeys(keyTable(c))
		if len(ks) == 0 {
			unsupp("no key registered (zzverif.RegisterKey)")
		}
		return ks[0], keyTable(c)[ks[0]]
	}
	ex.register(kp+"GenPrivKey", func(fr *frame, args []value) value {
		h, _ := firstKey(fr.i.ctx)
		bz, _ := hex.DecodeString(h)
		return bytesToValues(bz)
	})
	lookupPriv := func(c *pathCtx, priv []value) (string, *keyInfo) {
		bz, ok := concreteBytes(priv)
		if !ok {
			unsupp("symbolic private key bytes")
		}
		h := hex.EncodeToString(bz)
		ki := keyTable(c)[h]
		if ki == nil {
			unsupp("private key not registered with zzverif.RegisterKey")
		}
		return h, ki
	}
	ex.register("("+kp+"PrivKey).PubKey", func(fr *frame, args []value) value {
		_, ki := lookupPriv(fr.i.ctx, args[0].([]value))
		t := namedType(fr, "github.com/tendermint/tendermint/crypto/secp256k1", "PubKey")
		return iface{t: t, v: bytesToValues(ki.pub)}
	})
	ex.register("("+kp+"PubKey).Address", func(fr *frame, args []value) value {
		pub, _ := concreteBytes(args[0].([]value))
		for _, ki := range keyTable(fr.i.ctx) {
			if string(ki.pub) == string(pub) {
				return bytesToValues(ki.addr)
			}
		}
		sum := sha256.Sum256(pub)
		return bytesToValues(sum[:20])
	})
	ex.register("("+kp+"PrivKey).Sign", func(fr *frame, args []value) value {
		h, _ := lookupPriv(fr.i.ctx, args[0].([]value))
		msg := args[1].([]value)
		s := &snap{kind: 'S', names: []string{"key", "msg"}, elems: []*snap{{kind: 'T', str: h}, fr.i.snapOf(fr, append([]value{}, msg...), types.NewSlice(types.Typ[types.Uint8]), modeProto, false)}}
		return tuple{handleBytes(&handle{kind: "tmsig", snap: s}), iface{}}
	})
	ex.register("github.com/tendermint/tendermint/libs/os.FileExists", func(fr *frame, args []value) value {
		m, _ := fr.i.ctx.scratch["files"].(map[string][]value)
		_, ok := m[args[0].(string)]
		return ok
	})
	ex.register("(*github.com/rigochain/rigo-go/libs.FileIO).Write", func(fr *frame, args []value) value {
		p := args[0].(*value)
		path := (*p).(structure)[0].(string)
		if fr.i.ctx.scratch["files"] == nil {
			fr.i.ctx.scratch["files"] = map[string][]value{}
		}
		fr.i.ctx.scratch["files"].(map[string][]value)[path] = args[1].([]value)
		return tuple{len(args[1].([]value)), iface{}}
	})
}

// newXError builds a types/xerrors.XError value (code ordinary).
func (i *interpreter) newXError(msg string) value {
	pkg := i.prog.ImportedPackage("github.com/rigochain/rigo-go/types/xerrors")
	if pkg == nil {
		unsupp("xerrors not loaded")
	}
	fn := pkg.Func("NewOrdinary")
	return call(i, nil, token.NoPos, fn, []value{msg})
}

type modelHasher struct{ parts []*snap }

func registerHasher(ex *Explorer) {
	byteSlice := types.NewSlice(types.Typ[types.Uint8])
	ex.register("crypto/sha256.New", func(fr *frame, args []value) value {
		t := types.NewPointer(namedType(fr, "crypto/sha256", "digest"))
		return iface{t: t, v: boxed(&modelHasher{})}
	})
	get := func(v value) *modelHasher { return (*(v.(*value))).(*modelHasher) }
	ex.register("(*crypto/sha256.digest).Write", func(fr *frame, args []value) value {
		h := get(args[0])
		b := args[1].([]value)
		h.parts = append(h.parts, fr.i.snapOf(fr, append([]value{}, b...), byteSlice, modeProto, false))
		return tuple{len(b), iface{}}
	})
	ex.register("(*crypto/sha256.digest).Reset", func(fr *frame, args []value) value {
		get(args[0]).parts = nil
		return nil
	})
	ex.register("(*crypto/sha256.digest).Sum", func(fr *frame, args []value) value {
		h := get(args[0])
		hd := &handle{kind: "hash", snap: &snap{kind: 'L', elems: append([]*snap{}, h.parts...)}}
		return append(append([]value{}, args[1].([]value)...), handleBytes(hd)...)
	})
}

func registerMisc(ex *Explorer) {
	// sort.Slice & co. (the library versions go through reflection): a stable insertion
	// sort over the slice's backing store, calling the target's less function; a symbolic
	// comparison forks the path
	sortSlice := func(fr *frame, args []value) value {
		sl, ok := args[0].(iface).v.([]value)
		if !ok {
			unsupp("sort.Slice of %T", args[0].(iface).v)
		}
		for a := 1; a < len(sl); a++ {
			for b := a; b > 0; b-- {
				r := call(fr.i, fr, token.NoPos, args[1], []value{b, b - 1})
				if !fr.i.ctx.branch(termOf(r)) {
					break
				}
				sl[b], sl[b-1] = sl[b-1], sl[b]
			}
		}
		return nil
	}
	// errors.Is / Unwrap / As (the library versions inspect types through reflectlite)
	unwrap := func(fr *frame, e iface) (iface, bool) {
		if e.t == nil {
			return iface{}, false
		}
		if m := fr.i.findMethod(e.t, "Unwrap"); m != nil && m.Signature.Results().Len() == 1 {
			if r, ok := call(fr.i, fr, token.NoPos, m, []value{e.v}).(iface); ok {
				return r, true
			}
		}
		return iface{}, false
	}
	comparable := func(t types.Type) bool { return t != nil && types.Comparable(t) }
	ex.register("errors.Unwrap", func(fr *frame, args []value) value {
		r, _ := unwrap(fr, args[0].(iface))
		return r
	})
	ex.register("errors.Is", func(fr *frame, args []value) value {
		err, target := args[0].(iface), args[1].(iface)
		for depth := 0; depth < 32 && err.t != nil; depth++ {
			if comparable(err.t) && err.eq(nil, target) {
				return true
			}
			if m := fr.i.findMethod(err.t, "Is"); m != nil && m.Signature.Params().Len() == 1 {
				if r := call(fr.i, fr, token.NoPos, m, []value{err.v, target}); fr.i.ctx.branch(termOf(r)) {
					return true
				}
			}
			next, ok := unwrap(fr, err)
			if !ok {
				return false
			}
			err = next
		}
		return false
	})
	ex.register("errors.As", func(fr *frame, args []value) value {
		err, tgt := args[0].(iface), args[1].(iface)
		pt, ok := tgt.t.Underlying().(*types.Pointer)
		if !ok || tgt.v.(*value) == nil {
			panic(targetPanic{iface{t: types.Typ[types.String], v: "errors: target must be a non-nil pointer"}})
		}
		want := pt.Elem()
		for depth := 0; depth < 32 && err.t != nil; depth++ {
			match := types.Identical(err.t, want)
			if it, isI := want.Underlying().(*types.Interface); isI && !match {
				match = types.Implements(err.t, it)
			}
			if match {
				if _, isI := want.Underlying().(*types.Interface); isI {
					*(tgt.v.(*value)) = err
				} else {
					*(tgt.v.(*value)) = err.v
				}
				return true
			}
			next, ok := unwrap(fr, err)
			if !ok {
				return false
			}
			err = next
		}
		return false
	})
	ex.register("sort.Slice", sortSlice)
	ex.register("sort.SliceStable", sortSlice)
	ex.register("sort.SliceIsSorted", func(fr *frame, args []value) value {
		sl, ok := args[0].(iface).v.([]value)
		if !ok {
			unsupp("sort.SliceIsSorted of %T", args[0].(iface).v)
		}
		for a := len(sl) - 1; a > 0; a-- {
			if fr.i.ctx.branch(termOf(call(fr.i, fr, token.NoPos, args[1], []value{a, a - 1}))) {
				return false
			}
		}
		return true
	})
	registerStrings(ex)
	registerSig(ex)
	registerTmKeys(ex)
	registerHasher(ex)
	registerFilesAndTime(ex)
	// transaction hash: injective on the identity of the encoded bytes
	ex.register("(github.com/tendermint/tendermint/types.Tx).Hash", func(fr *frame, args []value) value {
		b := args[0].([]value)
		if h, ok := handleOf(b); ok {
			// content-based: equal encodings (same symbols) give equal hashes
			sum := handleDigest(h)
			return bytesToValues(sum[:])
		}
		bz, ok := concreteBytes(b)
		if !ok {
			unsupp("Tx.Hash of symbolic bytes")
		}
		sum := sha256.Sum256(bz)
		return bytesToValues(sum[:])
	})
}
