// symx: symbolic executor CLI.  Loads /repo (current working tree) with the
// harness overlay, explores the named harness functions and writes a JSON
// report.  Exit status: 0 always (verdicts are taken by the check driver).
package main

import (
	"encoding/json"
	"flag"
	"fmt"
	"os"
	"path/filepath"
	"sort"
	"strings"
	"time"

	"verif/engine/symx"
)

type harnessReport struct {
	*symx.Result
	WallS float64 `json:"wall_s"`
}

func main() {
	repo := flag.String("repo", "/repo", "repository root")
	hdir := flag.String("harness-dir", "/verif/harness", "directory mirrored onto the repository as an overlay")
	hs := flag.String("harness", "", "comma-separated <pkgpath>.<Func>[@maporder]")
	out := flag.String("out", "", "JSON report path")
	known := flag.String("known", "", "comma-separated active known-finding class ids")
	workers := flag.Int("workers", 16, "parallel workers")
	maxPaths := flag.Int("maxpaths", 200000, "path budget per harness")
	maxSteps := flag.Int64("maxsteps", 20000000, "instruction budget per path (unwinding assertion)")
	timeout := flag.Int("timeout", 60000, "solver timeout per query (ms)")
	solver := flag.String("solver", "z3", "z3 | z3-new | cvc5")
	budget := flag.Duration("budget", 0, "wall-clock budget per harness (0 = none)")
	verbose := flag.Bool("v", false, "verbose")
	tier := flag.String("tier", "quick", "quick | thorough (read by harnesses through zzverif.Thorough)")
	smt := flag.Bool("smt", false, "trace SMT of worker 0")
	allow := flag.String("allow-init", "", "extra packages whose init is executed")
	exclude := flag.String("exclude", "", "comma-separated harness files (relative to harness-dir) left out of the overlay")
	flag.Parse()
	excluded := map[string]bool{}
	for _, e := range strings.Split(*exclude, ",") {
		if e != "" {
			excluded[e] = true
		}
	}

	overlay := map[string][]byte{}
	filepath.Walk(*hdir, func(p string, info os.FileInfo, err error) error {
		if err != nil || info.IsDir() || !strings.HasSuffix(p, ".go") || strings.HasSuffix(p, "_test.go") {
			return nil
		}
		rel, _ := filepath.Rel(*hdir, p)
		if excluded[rel] {
			return nil
		}
		bz, err := os.ReadFile(p)
		if err != nil {
			panic(err)
		}
		overlay[filepath.Join(*repo, rel)] = bz
		return nil
	})
	var names []string
	pkgset := map[string]bool{}
	mapOrder := map[string]bool{}
	for _, h := range strings.Split(*hs, ",") {
		h = strings.TrimSpace(h)
		if h == "" {
			continue
		}
		if strings.HasSuffix(h, "@maporder") {
			h = strings.TrimSuffix(h, "@maporder")
			mapOrder[h] = true
		}
		names = append(names, h)
		pkgset[h[:strings.LastIndex(h, ".")]] = true
	}
	var patterns []string
	for p := range pkgset {
		patterns = append(patterns, p)
	}
	sort.Strings(patterns)
	patterns = append(patterns, "github.com/rigochain/rigo-go/zzverif")
	t0 := time.Now()
	ex, err := symx.Load(*repo, overlay, patterns)
	if err != nil {
		fmt.Fprintln(os.Stderr, "LOAD-ERROR:", err)
		os.Exit(3)
	}
	loadS := time.Since(t0).Seconds()
	ex.Workers, ex.MaxPaths, ex.MaxSteps, ex.TimeoutMs, ex.SolverKind, ex.Verbose, ex.TraceSMT = *workers, *maxPaths, *maxSteps, *timeout, *solver, *verbose, *smt
	ex.Thorough = *tier == "thorough"
	for _, k := range strings.Split(*known, ",") {
		if k != "" {
			ex.KnownActive[k] = true
		}
	}
	ex.AllowInit(symx.DefaultInitPackages...)
	for _, a := range strings.Split(*allow, ",") {
		if a != "" {
			ex.AllowInit(a)
		}
	}
	report := map[string]interface{}{"load_s": loadS, "solver": *solver}
	var results []*harnessReport
	for _, n := range names {
		h, err := ex.FindHarness(n)
		if err != nil {
			fmt.Fprintln(os.Stderr, "HARNESS-ERROR:", err)
			os.Exit(3)
		}
		h.MapOrder = mapOrder[n]
		if *budget > 0 {
			ex.Deadline = time.Now().Add(*budget)
		}
		r := ex.Run(h)
		results = append(results, &harnessReport{Result: r, WallS: r.Wall.Seconds()})
		if *verbose {
			fmt.Fprintf(os.Stderr, "%s: paths=%d decisions=%d obligations=%d/%d violations=%d inconclusive=%d solver(sat=%d unsat=%d unknown=%d %.1fs) wall=%.1fs\n",
				n, r.Paths, r.Decisions, r.Discharged, r.Obligations, len(r.Violations), len(r.Inconclusive),
				r.Solver.Sat, r.Solver.Unsat, r.Solver.Unknown, r.Solver.Time.Seconds(), r.Wall.Seconds())
			cnt := map[string]int{}
			for _, v := range r.Violations {
				key := fmt.Sprintf("%s [%s] known=%v outside=%v %s", v.Label, v.Kind, v.Known, v.Outside, v.Detail)
				cnt[key]++
				if cnt[key] <= 2 {
					fmt.Fprintf(os.Stderr, "  VIOL %s model=%v\n", key, v.Model)
				}
			}
			for k, n := range cnt {
				if n > 2 {
					fmt.Fprintf(os.Stderr, "  VIOL (x%d) %s\n", n, k)
				}
			}
			for _, s := range r.Inconclusive {
				fmt.Fprintf(os.Stderr, "  INCONCLUSIVE %s\n", s)
			}
			var rs []string
			for k, n := range r.Reached {
				rs = append(rs, fmt.Sprintf("%s:%d", k, n))
			}
			sort.Strings(rs)
			fmt.Fprintf(os.Stderr, "  reached: %s\n", strings.Join(rs, " "))
		}
	}
	report["results"] = results
	bz, _ := json.MarshalIndent(report, "", " ")
	if *out != "" {
		if err := os.WriteFile(*out, bz, 0644); err != nil {
			panic(err)
		}
	} else {
		os.Stdout.Write(bz)
	}
}
